// C01 — hostile input never crashes or hangs the readers.
//
// Decided by exhaustive enumeration of syntactically valid, adversarial inputs
// (byte mutation cannot pass eexec/charstring encryption) on the real code:
// every operator applied to every tuple of adversarial operands, every
// operator pair/triple after a set of preambles, all short byte strings
// through the scanner, all short charstring command sequences, font-level
// knobs (lenIV, wrong types, missing dictionaries), PFB headers through
// type1.Read, AFM line sequences, CMap bodies through ReadCMap.
//
// Oracle: the call returns; no panic (recovered in-process and reported with
// the input); the worker process is not killed by a Go fatal error (stack
// exhaustion, out of memory under the 4 GiB address-space cap) and keeps
// making progress (watchdog).  Error values are all acceptable.
package main

import (
	"bytes"
	"fmt"
	"math"
	"strings"
	"time"

	"seehuhn.de/go/postscript"
	"seehuhn.de/go/postscript/afm"
	"seehuhn.de/go/postscript/type1"

	"verif/mc"
)

const maxOps = 10000

// ---------------------------------------------------------------------------
// PostScript programs

// definitions shared by the operand expressions
const psPreamble = `/SA 1 array def SA 0 SA put ` + // array containing itself
	`/SP {0} def /SP load 0 /SP load put ` + // procedure containing itself
	`/MA {0 0 0 0 0 0 0 0 0 0 0 0} def /MB {0 0 0 0 0 0 0 0 0 0 0 0} def ` +
	`0 1 11 {/MA load exch /MB load put} for 0 1 11 {/MB load exch /MA load put} for ` + // mutually nested procedures
	`/SD 2 dict def SD /self SD put ` + // dictionary containing itself
	// directed acyclic graphs 48 levels deep in which every level refers twice to
	// the level below: 2^48 paths, 48 objects (a walk must remember what it has
	// seen, not only what is on its current path)
	`/DG {1} def 48 { 2 array dup 0 /DG load put dup 1 /DG load put cvx /DG exch def } repeat ` +
	`/DA [1] def 48 { 2 array dup 0 DA put dup 1 DA put /DA exch def } repeat ` +
	`/DD 1 dict def 48 { 2 dict dup /a DD put dup /b DD put /DD exch def } repeat ` +
	`/BS 65536 string def `

var operands = []string{
	"0", "1", "-1", "2147483648", "9007199254740992", "9223372036854775807", "-9223372036854775808",
	"65536", "65537", "1.5", "1e308",
	"()", "(abc)", "BS", "[]", "[1 2]", "SA", "{}", "/SP load", "/MA load",
	"/a", "true", "mark", "currentfile", "SD", "systemdict",
	// names of existing resource categories / instances, system objects, an error handler object
	"/Font", "/ProcSet", "/CIDInit", "errordict", "errordict /typecheck get", "StandardEncoding",
	// the dictionaries an interpreter is born with, other than systemdict
	"1183615869 internaldict", "userdict", "FontDirectory", "/CIDInit /ProcSet findresource",
	// the deep shared graphs
	"/DG load", "DA", "DD",
}

var sysOps = []string{
	"[", "]", "<<", ">>", "abs", "add", "and", "array", "begin", "bind", "cleartomark", "closefile",
	"copy", "count", "currentdict", "currentfile", "cvx", "def", "definefont", "defineresource", "dict",
	"dup", "exec", "eexec", "end", "eq", "exch", "executeonly", "exit", "findfont", "findresource",
	"for", "forall", "get", "getinterval", "if", "ifelse", "index", "internaldict", "known", "length",
	"load", "loop", "mark", "matrix", "maxlength", "mul", "ne", "noaccess", "not", "or", "pop", "put",
	"putinterval", "readonly", "readstring", "repeat", "roll", "stop", "string", "sub", "type", "where",
}

var cidOps = []string{
	"begincmap", "endcmap", "usecmap",
	"begincodespacerange", "endcodespacerange", "begincidchar", "endcidchar", "begincidrange", "endcidrange",
	"beginbfchar", "endbfchar", "beginbfrange", "endbfrange", "beginnotdefchar", "endnotdefchar",
	"beginnotdefrange", "endnotdefrange",
}

var allOps = append(append([]string{}, sysOps...), cidOps...)

const cidPrologue = "/CIDInit /ProcSet findresource begin 12 dict begin "

func runPS(prog string) (err error, intp *postscript.Interpreter) {
	intp = postscript.NewInterpreter()
	intp.MaxOps = maxOps
	err = intp.ExecuteString(prog)
	return err, intp
}

func errClass(err error) string {
	if err == nil {
		return "ok"
	}
	s := err.Error()
	if i := strings.Index(s, ":"); i > 0 && i < 24 {
		return "error:" + s[:i]
	}
	return "error:other"
}

func pow(b, e int) int {
	r := 1
	for i := 0; i < e; i++ {
		r *= b
	}
	return r
}

// operandsSmall is the pool used one arity above the full enumeration.
var operandsSmall = []string{"0", "1", "-1", "9223372036854775807", "-9223372036854775808", "65537", "(abc)", "BS", "[1 2]", "SA", "{}", "/MA load", "/a", "SD", "mark", "/Font", "errordict /typecheck get", "/DG load", "1183615869 internaldict"}

func tuplesFamily(name string, operands []string, minArity, maxArity int, budget time.Duration) mc.Family {
	type block struct{ arity, op, variant int }
	var blocks []block
	for k := minArity; k <= maxArity; k++ {
		for oi := range allOps {
			nv := 1
			if oi >= len(sysOps) {
				nv = 2 // with and without an open begincmap
			}
			for v := 0; v < nv; v++ {
				blocks = append(blocks, block{k, oi, v})
			}
		}
	}
	render := func(b block, idx int) string {
		parts := make([]string, b.arity)
		for i := b.arity - 1; i >= 0; i-- {
			parts[i] = operands[idx%len(operands)]
			idx /= len(operands)
		}
		pre := psPreamble
		if b.op >= len(sysOps) {
			pre += cidPrologue
			if b.variant == 1 {
				pre += "begincmap "
			}
		}
		return pre + strings.Join(parts, " ") + " " + allOps[b.op]
	}
	return mc.Family{
		Name: name, Items: len(blocks), Budget: budget,
		Rule: fmt.Sprintf("every operator of systemdict (%d) and of the CIDInit procedure set (%d, with and without an open begincmap) applied to every tuple of "+fmt.Sprint(minArity)+"..%d operands from %d adversarial operand expressions (extreme integers, huge real, empty/65536-byte strings, arrays/procedures/dictionaries containing themselves, two 12-slot procedures nested in each other in every slot, mark, file, systemdict), MaxOps=%d; non-trivial = every case (each is a distinct program)", len(sysOps), len(cidOps), maxArity, len(operands), maxOps),
		Body: func(c *mc.Ctx, item int) mc.Verdict {
			b := blocks[item]
			idx := c.Choose(pow(len(operands), b.arity))
			prog := render(b, idx)
			err, intp := runPS(prog)
			c.Step()
			if len(intp.Stack) > 70000 {
				return mc.Fail("C01:ps:operand-stack-unbounded:"+allOps[b.op], prog)
			}
			v := mc.Pass(errClass(err), true)
			if c.Render() {
				v.Render = strings.TrimPrefix(prog, psPreamble) + " → " + errClass(err)
			}
			return v
		},
		Describe: func(item int) string {
			b := blocks[item]
			return fmt.Sprintf("operator %s with %d operands (some tuple) after preamble %s", allOps[b.op], b.arity, psPreamble)
		},
		CrashKey:    func(item int) string { return "C01:crash:ps-operator:" + allOps[blocks[item].op] },
		HangSeconds: 40,
	}
}

// boundaryCountFamily: counts, positions and amounts at the edges of the integer
// range, in the places where the stack and composite-object operators do
// arithmetic on them (`n j roll` normalises j modulo n, `index` and `copy`
// subtract from the stack depth, getinterval / putinterval add index and count).
func boundaryCountFamily(budget time.Duration) mc.Family {
	var ints []string
	seen := map[string]bool{}
	add := func(v int64) {
		t := fmt.Sprint(v)
		if !seen[t] {
			seen[t] = true
			ints = append(ints, t)
		}
	}
	for _, k := range []uint{0, 1, 2, 3, 7, 8, 15, 16, 31, 32, 62} {
		for _, d := range []int64{-1, 0, 1} {
			add(int64(1)<<k + d)
			add(-(int64(1) << k) + d)
		}
	}
	add(math.MaxInt64)
	add(math.MinInt64)
	add(math.MinInt64 + 1)
	stacks := []string{"11 12 13 14 15 16 17", "(abcdefg) [1 2 3 4 5 6 7]", "[1 2 3 4 5 6 7] (abcdefg)", "mark 1 2 3 {1 2 3 4 5 6 7}"}
	const small = 9
	return mc.Family{
		Name: "small-count-and-boundary-integer-under-every-operator", Items: len(allOps) * len(stacks), Budget: budget,
		Rule: fmt.Sprintf("every operator (%d) on top of %d stacks (seven integers; a 7-byte string and a 7-element array in both orders; a mark, three integers and a 7-element procedure) followed by a small integer 0..%d and one of %d boundary integers (+-(2^k-1), +-2^k, +-(2^k+1) for k in {0,1,2,3,7,8,15,16,31,32,62}, min/max int) in both orders, and by the boundary integer alone; non-trivial = every case", len(allOps), len(stacks), small-1, len(ints)),
		Body: func(c *mc.Ctx, item int) mc.Verdict {
			op := allOps[item%len(allOps)]
			st := stacks[item/len(allOps)]
			a := ints[c.Choose(len(ints))]
			k := c.Choose(2*small + 1)
			var tail string
			switch {
			case k < small:
				tail = fmt.Sprintf("%d %s", k, a)
			case k < 2*small:
				tail = fmt.Sprintf("%s %d", a, k-small)
			default:
				tail = a
			}
			pre := psPreamble
			if item%len(allOps) >= len(sysOps) {
				pre += cidPrologue + "begincmap "
			}
			prog := pre + st + " " + tail + " " + op
			err, intp := runPS(prog)
			c.Step()
			if len(intp.Stack) > 70000 {
				return mc.Fail("C01:ps:operand-stack-unbounded:"+op, prog)
			}
			v := mc.Pass(errClass(err), true)
			if c.Render() {
				v.Render = st + " " + tail + " " + op + " → " + errClass(err)
			}
			return v
		},
		Describe: func(item int) string {
			return "operator " + allOps[item%len(allOps)] + " on " + stacks[item/len(allOps)]
		},
		CrashKey:    func(item int) string { return "C01:crash:ps-operator:" + allOps[item%len(allOps)] },
		HangSeconds: 40,
	}
}

var seqPreambles = []string{
	"",
	"1 2 3",
	"mark 1 2",
	"[1 2] (ab) /x",
	"5 dict begin",
	strings.Repeat("1 dict begin ", 17), // dictionary stack at depth 19
	strings.Repeat("1 ", 499),           // operand stack at depth 499
	cidPrologue + "begincmap",
	"{1} {2}",
	"currentfile",
	"true false 0",
	"systemdict userdict errordict",
}

func seqFamily(length int, preambles []string, budget time.Duration) mc.Family {
	n := len(allOps)
	per := pow(n, length-1)
	return mc.Family{
		Name: fmt.Sprintf("ps-operator-sequences-%d", length), Items: len(preambles) * n, Budget: budget,
		Rule: fmt.Sprintf("every sequence of %d operators (systemdict + CIDInit, %d names) after each of %d preambles (empty, values on the stack, open mark, open dict, dictionary stack at depth 19, operand stack at depth 499, open begincmap, procedures, file, booleans, system dictionaries); item = (preamble, first operator); non-trivial = every case", length, n, len(preambles)),
		Body: func(c *mc.Ctx, item int) mc.Verdict {
			pre := preambles[item/n]
			ops := []string{allOps[item%n]}
			idx := c.Choose(per)
			for i := 1; i < length; i++ {
				ops = append(ops, allOps[idx%n])
				idx /= n
			}
			prog := psPreamble + cidPrologue + "end end " + pre + " " + strings.Join(ops, " ")
			if strings.Contains(pre, "CIDInit") {
				prog = psPreamble + pre + " " + strings.Join(ops, " ")
			} else {
				// the CIDInit operators are made reachable by name
				prog = psPreamble + "/CIDInit /ProcSet findresource {def} forall " + pre + " " + strings.Join(ops, " ")
			}
			err, _ := runPS(prog)
			c.Step()
			v := mc.Pass(errClass(err), true)
			if c.Render() {
				v.Render = pre + " | " + strings.Join(ops, " ") + " → " + errClass(err)
			}
			return v
		},
		Describe: func(item int) string {
			return fmt.Sprintf("preamble `%.60s` first operator %s", preambles[item/n], allOps[item%n])
		},
		CrashKey:    func(item int) string { return "C01:crash:ps-sequence:" + allOps[item%n] },
		HangSeconds: 40,
	}
}

// ---------------------------------------------------------------------------
// scanner

var lexBytes = []byte("()<>[]{}/%\\~#.+- \n\r0189afze_!")

func scannerFamily(name string, alphabet []byte, length int, budget time.Duration) mc.Family {
	n := len(alphabet)
	// item = first two bytes (or fewer for short strings)
	type blk struct {
		prefix []byte
		rest   int
	}
	var blocks []blk
	for l := 0; l <= length; l++ {
		switch {
		case l <= 2:
			for i := 0; i < pow(n, l); i++ {
				p := make([]byte, l)
				x := i
				for j := range p {
					p[j] = alphabet[x%n]
					x /= n
				}
				blocks = append(blocks, blk{p, 0})
			}
		default:
			for i := 0; i < n*n; i++ {
				blocks = append(blocks, blk{[]byte{alphabet[i%n], alphabet[i/n]}, l - 2})
			}
		}
	}
	return mc.Family{
		Name: name, Items: len(blocks), Budget: budget,
		Rule: fmt.Sprintf("every byte string of length 0..%d over an alphabet of %d bytes fed to Interpreter.Execute (MaxOps=%d), also wrapped as `{ … }` and after `currentfile eexec `; non-trivial = every case", length, n, maxOps),
		Body: func(c *mc.Ctx, item int) mc.Verdict {
			b := blocks[item]
			s := append([]byte{}, b.prefix...)
			if b.rest > 0 {
				idx := c.Choose(pow(n, b.rest))
				for i := 0; i < b.rest; i++ {
					s = append(s, alphabet[idx%n])
					idx /= n
				}
			}
			mode := c.Choose(3)
			var in []byte
			switch mode {
			case 0:
				in = s
			case 1:
				in = append(append([]byte("{ "), s...), " } "...)
			case 2:
				in = append([]byte("currentfile eexec "), s...)
			}
			intp := postscript.NewInterpreter()
			intp.MaxOps = maxOps
			err := intp.Execute(bytes.NewReader(in))
			c.Step()
			v := mc.Pass(errClass(err), true)
			if c.Render() {
				v.Render = fmt.Sprintf("%q → %s", in, errClass(err))
			}
			return v
		},
		Describe: func(item int) string { return fmt.Sprintf("byte strings starting with %q", blocks[item].prefix) },
		CrashKey: func(item int) string { return "C01:crash:scanner" },
	}
}

// ---------------------------------------------------------------------------
// charstrings

type csTok struct {
	name string
	code []byte
}

func csNum(v int32) []byte {
	switch {
	case v >= -107 && v <= 107:
		return []byte{byte(v + 139)}
	case v >= 108 && v <= 1131:
		v -= 108
		return []byte{byte(v/256 + 247), byte(v % 256)}
	case v >= -1131 && v <= -108:
		v = -v - 108
		return []byte{byte(v/256 + 251), byte(v % 256)}
	}
	return []byte{255, byte(v >> 24), byte(v >> 16), byte(v >> 8), byte(v)}
}

var csAlphabet = func() []csTok {
	var t []csTok
	for _, v := range []int32{0, 1, -1, 3, 4, 1000, 2147483647, -2147483648} {
		t = append(t, csTok{fmt.Sprint(v), csNum(v)})
	}
	cmds := map[string][]byte{
		"hstem": {1}, "vstem": {3}, "vmoveto": {4}, "rlineto": {5}, "hlineto": {6}, "vlineto": {7}, "rrcurveto": {8},
		"closepath": {9}, "callsubr": {10}, "return": {11}, "hsbw": {13}, "endchar": {14}, "rmoveto": {21}, "hmoveto": {22},
		"vhcurveto": {30}, "hvcurveto": {31}, "dotsection": {12, 0}, "vstem3": {12, 1}, "hstem3": {12, 2}, "seac": {12, 6},
		"sbw": {12, 7}, "div": {12, 12}, "callothersubr": {12, 16}, "pop": {12, 17}, "setcurrentpoint": {12, 33},
		"op2": {2}, "esc99": {12, 99}, "trunc255": {255, 1}, "trunc12": {12}, "trunc247": {247},
	}
	// macro tokens: whole othersubr calls (flex start / coordinate pair / end, hint replacement)
	cat := func(parts ...[]byte) []byte {
		var b []byte
		for _, p := range parts {
			b = append(b, p...)
		}
		return b
	}
	cmds["flexstart"] = cat(csNum(0), csNum(1), []byte{12, 16})
	cmds["flexpair"] = cat(csNum(0), csNum(2), []byte{12, 16})
	cmds["flexend"] = cat(csNum(50), csNum(10), csNum(20), csNum(3), csNum(0), []byte{12, 16})
	cmds["hintrepl"] = cat(csNum(4), csNum(1), csNum(3), []byte{12, 16})
	order := []string{"flexstart", "flexpair", "flexend", "hintrepl", "hstem", "vstem", "vmoveto", "rlineto", "hlineto", "vlineto", "rrcurveto", "closepath", "callsubr", "return", "hsbw",
		"endchar", "rmoveto", "hmoveto", "vhcurveto", "hvcurveto", "dotsection", "vstem3", "hstem3", "seac", "sbw", "div", "callothersubr",
		"pop", "setcurrentpoint", "op2", "esc99", "trunc255", "trunc12", "trunc247"}
	for _, n := range order {
		t = append(t, csTok{n, cmds[n]})
	}
	return t
}()

const numSubrConfigs = 5

func csSubrs(config int) [][]byte {
	cat := func(parts ...[]byte) []byte {
		var b []byte
		for _, p := range parts {
			b = append(b, p...)
		}
		return b
	}
	switch config {
	case 0:
		return nil
	case 1: // subr 0 calls itself, subr 1 = return, subr 4 pushes
		return [][]byte{cat(csNum(0), []byte{10}), {11}, nil, {11}, cat(csNum(5), csNum(5), []byte{11})}
	case 2: // chain 0 -> 1 -> ... -> 11
		var s [][]byte
		for i := 0; i < 12; i++ {
			if i < 11 {
				s = append(s, cat(csNum(int32(i+1)), []byte{10, 11}))
			} else {
				s = append(s, []byte{11})
			}
		}
		return s
	case 4: // subrs that repeat one othersubr call many times
		rep := func(b []byte, n int) []byte {
			var out []byte
			for i := 0; i < n; i++ {
				out = append(out, b...)
			}
			return append(out, 11)
		}
		pair := cat(csNum(0), csNum(2), []byte{12, 16})
		start := cat(csNum(0), csNum(1), []byte{12, 16})
		return [][]byte{rep(pair, 8), cat(start, rep(pair, 9)), rep(pair, 40), {11}, rep(cat(csNum(1), csNum(2), []byte{21}, pair), 30),
			rep(cat(csNum(3), csNum(0), []byte{12, 16}), 10), rep([]byte{12, 17}, 30), rep(csNum(7), 30)}
	default: // flex subrs and a subr that never returns
		return [][]byte{
			cat(csNum(3), csNum(0), []byte{12, 16, 12, 17, 12, 17, 12, 33, 11}),
			cat(csNum(0), csNum(1), []byte{12, 16, 11}),
			cat(csNum(0), csNum(2), []byte{12, 16, 11}),
			{11},
			cat(csNum(1), csNum(2)),
		}
	}
}

func charstringFamily(length int, budget time.Duration) mc.Family {
	n := len(csAlphabet)
	return mc.Family{
		Name: "charstrings", Items: n * n * numSubrConfigs, Budget: budget,
		Rule: fmt.Sprintf("every charstring of 2..%d tokens over %d tokens (8 numbers incl. +-2^31, 25 commands incl. callsubr/callothersubr/seac/div/pop, an undefined opcode, an undefined escape, three truncated encodings) x 5 subroutine tables (none; self-calling subr; call chain of depth 12; subrs repeating one othersubr call / pop / number 8..40 times; flex subrs + a subr without return), decoded through the export shim, and every 64th also through type1.Read on a generated font; item = (subr table, first two tokens); non-trivial = every case", length, n),
		Body: func(c *mc.Ctx, item int) mc.Verdict {
			cfg := item / (n * n)
			toks := []int{item % n, (item / n) % n}
			extra := length - 2
			if extra > 0 {
				// shorter strings are those whose tail tokens are "endchar"-free? no: enumerate each length
				l := c.Choose(extra + 1)
				idx := c.Choose(pow(n, l))
				for i := 0; i < l; i++ {
					toks = append(toks, idx%n)
					idx /= n
				}
			}
			var code []byte
			var names []string
			for _, t := range toks {
				code = append(code, csAlphabet[t].code...)
				names = append(names, csAlphabet[t].name)
			}
			subrs := csSubrs(cfg)
			err := decodeCharString(code, subrs)
			c.Step()
			h := 0
			for _, t := range toks {
				h = h*31 + t
			}
			if shimAvailable && h%64 == 0 {
				err2 := readFontWith(code, subrs, 4)
				c.Step()
				if (err == nil) != (err2 == nil) {
					// the public path runs the same decoder: they must agree on accept/reject
					// (the font wrapper itself is well-formed)
					v := mc.Fail("C01:charstring:shim-and-public-path-disagree", fmt.Sprintf("charstring %v subr table %d: shim err=%v, type1.Read err=%v", names, cfg, err, err2))
					v.Render = strings.Join(names, " ")
					return v
				}
			}
			out := "accepted"
			if err != nil {
				out = "rejected"
			}
			v := mc.Pass(out, true)
			if c.Render() {
				v.Render = fmt.Sprintf("subrs#%d: %s → %v", cfg, strings.Join(names, " "), err)
			}
			return v
		},
		Describe: func(item int) string {
			return fmt.Sprintf("subr table %d, charstrings starting with %s %s", item/(n*n), csAlphabet[item%n].name, csAlphabet[(item/n)%n].name)
		},
		CrashKey: func(item int) string {
			return "C01:crash:charstring:" + csAlphabet[item%n].name + "," + csAlphabet[(item/n)%n].name
		},
	}
}

// fanoutFamily: multiplicative structures.  Subroutines may nest ten deep; if
// every level calls the next one k times, d levels cost k^d.  The same with the
// leaf doing each kind of thing (a line, a curve, a hint, a flex, nothing), and
// with seac composites whose components are composites.  A font of a kilobyte
// must not cost more than a bounded amount of time and memory.
func fanoutFamily(budget time.Duration) mc.Family {
	ks := []int{2, 3, 8, 12, 30, 100}
	depths := []int{2, 5, 8, 9, 10}
	leaves := []struct {
		name string
		code []byte
	}{
		{"hlineto", append(csNum(1), 6)},
		{"rrcurveto", append(append(append(append(append(append(csNum(1), csNum(1)...), csNum(1)...), csNum(1)...), csNum(1)...), csNum(1)...), 8)},
		{"hstem", append(append(csNum(1), csNum(2)...), 1)},
		{"rmoveto", append(append(csNum(1), csNum(1)...), 21)},
		{"closepath", []byte{9}},
		{"nothing", nil},
		{"number left on the stack", csNum(7)},
		// long straight-line bodies: the work of a call is the length of what it runs
		{"30000 closepath operators", bytes.Repeat([]byte{9}, 30000)},
		{"15000 dotsection operators", bytes.Repeat([]byte{12, 0}, 15000)},
	}
	n := len(ks) * len(depths) * len(leaves)
	return mc.Family{
		Name: "charstring-call-fan-out", Items: n, Budget: budget, HangSeconds: 60,
		Rule: fmt.Sprintf("a glyph that calls a subroutine which calls the next one k times, d levels deep (k in %v, d in %v: up to 100^10 leaf executions from under 3 KiB), the innermost doing one of %d things (a line, a curve, a hint, a move, closepath, nothing, leaving a number, 30,000 / 15,000 operators in a row); through type1.Read; oracle as everywhere in C01: returns (a font or an error) within the watchdog and under the memory cap; non-trivial = all", ks, depths, len(leaves)),
		Body: func(c *mc.Ctx, item int) mc.Verdict {
			k := ks[item%len(ks)]
			d := depths[(item/len(ks))%len(depths)]
			leaf := leaves[item/len(ks)/len(depths)]
			subrs := [][]byte{{11}, {11}, {11}, {11}} // entries 0-3 have fixed meanings
			for i := 0; i < d-1; i++ {
				var body []byte
				for j := 0; j < k; j++ {
					body = append(append(body, csNum(int32(4+i+1))...), 10)
				}
				subrs = append(subrs, append(body, 11))
			}
			subrs = append(subrs, append(append([]byte{}, leaf.code...), 11))
			code := append(append([]byte{}, csNum(0)...), csNum(500)...)
			code = append(code, 13)
			code = append(append(code, csNum(0)...), csNum(0)...)
			code = append(code, 21)
			code = append(append(code, csNum(4)...), 10)
			code = append(code, 9, 14)
			err := readFontWith(code, subrs, 4)
			c.Step()
			out := "accepted"
			if err != nil {
				out = "rejected"
			}
			v := mc.Pass(out, true)
			if c.Render() {
				v.Render = fmt.Sprintf("%d calls per level, %d levels, leaf %s → %v", k, d, leaf.name, err)
			}
			return v
		},
		Describe: func(item int) string {
			return fmt.Sprintf("%d calls per level, %d levels, leaf %s", ks[item%len(ks)], depths[(item/len(ks))%len(depths)], leaves[item/len(ks)/len(depths)].name)
		},
		CrashKey: func(item int) string { return "C01:crash:charstring-call-fan-out" },
	}
}

// seacChainFamily: composites of composites.  The reader resolves seac glyphs in
// glyph-name order, so a composite whose components are the composite before it
// doubles the outline at every step; a font of a few kilobytes must not cost
// more than a bounded amount of time and memory.
func seacChainFamily(budget time.Duration) mc.Family {
	lengths := []int{1, 2, 5, 12, 20, 24, 28, 40, 100, 255}
	shapes := []string{"base and accent both the previous composite", "base the previous composite, accent the first glyph", "accent the previous composite, base the first glyph", "names in descending order (components resolved later)"}
	return mc.Family{
		Name: "seac-chains", Items: len(lengths) * len(shapes), Budget: budget, HangSeconds: 60,
		Rule: fmt.Sprintf("a font whose glyph k is `0 500 hsbw 0 0 0 b a seac` with b, a naming glyph k-1 (or the first glyph, which has a three-segment outline) through a 256-entry Encoding array, chains of %v glyphs x %d shapes (2^255 path segments from under 8 KiB if every step doubles); through type1.Read; oracle as everywhere in C01: returns (a font or an error) within the watchdog and under the memory cap; non-trivial = all", lengths, len(shapes)),
		Body: func(c *mc.Ctx, item int) mc.Verdict {
			n := lengths[item%len(lengths)]
			shape := item / len(lengths)
			first := append(append(csNum(0), csNum(500)...), 13)
			first = append(append(append(first, csNum(10)...), csNum(20)...), 21)
			first = append(append(append(first, csNum(30)...), csNum(0)...), 5)
			first = append(append(append(first, csNum(0)...), csNum(40)...), 5, 9, 14)
			name := func(k int) string {
				if shape == 3 {
					return fmt.Sprintf("g%03d", 300-k)
				}
				return fmt.Sprintf("g%03d", k)
			}
			fs := fontSpec{encLenIV: 4, glyphs: map[string][]byte{".notdef": simpleGlyph, name(0): first}, order: []string{".notdef", name(0)}}
			enc := "/Encoding 256 array 0 1 255 {1 index exch /.notdef put} for\n"
			enc += fmt.Sprintf("dup 0 /%s put\n", name(0))
			for k := 1; k <= n; k++ {
				b, a := int32(k-1), int32(k-1)
				switch shape {
				case 1:
					a = 0
				case 2:
					b = 0
				}
				cs := append(append(csNum(0), csNum(500)...), 13)
				cs = append(append(append(cs, csNum(0)...), csNum(1)...), csNum(1)...)
				cs = append(append(cs, csNum(b)...), csNum(a)...)
				cs = append(cs, 12, 6)
				fs.glyphs[name(k)] = cs
				fs.order = append(fs.order, name(k))
				if k < 256 {
					enc += fmt.Sprintf("dup %d /%s put\n", k, name(k))
				}
			}
			fs.top = enc + "def\n"
			F, err := type1.Read(bytes.NewReader(buildFont(fs)))
			c.Step()
			out := "rejected"
			segs := 0
			if err == nil {
				out = "accepted"
				for _, g := range F.Glyphs {
					segs += len(g.Cmds)
				}
			}
			v := mc.Pass(out, true)
			if c.Render() {
				v.Render = fmt.Sprintf("chain of %d composites, %s → %v (%d path commands in the font)", n, shapes[shape], err, segs)
			}
			return v
		},
		Describe: func(item int) string {
			return fmt.Sprintf("chain of %d composites, %s", lengths[item%len(lengths)], shapes[item/len(lengths)])
		},
		CrashKey: func(item int) string { return "C01:crash:seac-chains" },
	}
}

// repeatFamily: one token repeated k times (after hsbw), optionally followed by
// a second token: buffers sized for the well-formed case (24-entry operand
// stack, 14 flex coordinates, 10 nested calls) must not be overrun.
func repeatFamily(budget time.Duration) mc.Family {
	n := len(csAlphabet)
	counts := []int{7, 8, 9, 14, 15, 24, 25, 26, 100, 1000}
	return mc.Family{
		Name: "charstring-repeats", Items: n * len(counts), Budget: budget,
		Rule: fmt.Sprintf("`0 500 hsbw` followed by one token (of %d, incl. the macro tokens flexstart/flexpair/flexend/hintrepl) repeated k times for k in %v, followed by each single token or nothing, x %d subroutine tables; shim decoder (and every 16th case through type1.Read); non-trivial = every case", n, counts, numSubrConfigs),
		Body: func(c *mc.Ctx, item int) mc.Verdict {
			t := csAlphabet[item%n]
			k := counts[item/n]
			cfg := c.Choose(numSubrConfigs)
			tail := c.Choose(n + 1)
			code := append(append([]byte{}, csNum(0)...), csNum(500)...)
			code = append(code, 13)
			for i := 0; i < k; i++ {
				code = append(code, t.code...)
			}
			name := fmt.Sprintf("hsbw %s x%d", t.name, k)
			if tail < n {
				code = append(code, csAlphabet[tail].code...)
				name += " " + csAlphabet[tail].name
			}
			subrs := csSubrs(cfg)
			err := decodeCharString(code, subrs)
			c.Step()
			if shimAvailable && (item+tail+cfg)%16 == 0 {
				err2 := readFontWith(code, subrs, 4)
				c.Step()
				if (err == nil) != (err2 == nil) {
					v := mc.Fail("C01:charstring:shim-and-public-path-disagree", fmt.Sprintf("charstring %s subr table %d: shim err=%v, type1.Read err=%v", name, cfg, err, err2))
					v.Render = name
					return v
				}
			}
			out := "accepted"
			if err != nil {
				out = "rejected"
			}
			v := mc.Pass(out, true)
			if c.Render() {
				v.Render = fmt.Sprintf("subrs#%d: %s → %v", cfg, name, err)
			}
			return v
		},
		Describe: func(item int) string {
			return fmt.Sprintf("%s repeated %d times", csAlphabet[item%n].name, counts[item/n])
		},
		CrashKey: func(item int) string { return "C01:crash:charstring-repeat:" + csAlphabet[item%n].name },
	}
}

func csEncrypt(plain []byte, lenIV int) []byte {
	var r uint16 = 4330
	out := make([]byte, 0, len(plain)+lenIV)
	in := append(make([]byte, lenIV), plain...)
	for _, p := range in {
		c := p ^ byte(r>>8)
		r = (uint16(c)+r)*52845 + 22719
		out = append(out, c)
	}
	return out
}

type fontSpec struct {
	lenIV      string // text of the lenIV value ("" = entry absent)
	encLenIV   int    // lead bytes actually used
	subrs      [][]byte
	glyphs     map[string][]byte
	order      []string
	rawGlyph   map[string][]byte // already-"encrypted" bytes, used verbatim
	fontInfo   string
	private    string // extra entries
	charString string // replacement for the CharStrings value ("" = normal)
	top        string // extra top-level entries
	omit       map[string]bool
}

func buildFont(fs fontSpec) []byte {
	var b bytes.Buffer
	b.WriteString("%!PS-AdobeFont-1.0: Test 001.000\n11 dict begin\n")
	if !fs.omit["FontInfo"] {
		if fs.fontInfo != "" {
			b.WriteString("/FontInfo " + fs.fontInfo + " def\n")
		} else {
			b.WriteString("/FontInfo 5 dict dup begin /version (1) def /FullName (Test) def end def\n")
		}
	}
	b.WriteString("/FontName /Test def\n/Encoding StandardEncoding def\n/PaintType 0 def\n")
	if !fs.omit["FontType"] {
		b.WriteString("/FontType 1 def\n")
	}
	b.WriteString("/FontMatrix [0.001 0 0 0.001 0 0] def\n/FontBBox [0 0 0 0] def\n")
	b.WriteString(fs.top)
	b.WriteString("currentdict end\n")
	if !fs.omit["Private"] {
		b.WriteString("dup /Private 12 dict dup begin\n/RD {string currentfile exch readstring pop} def /ND {def} def /NP {put} def\n")
		if fs.lenIV != "" {
			b.WriteString("/lenIV " + fs.lenIV + " def\n")
		}
		b.WriteString(fs.private)
		if fs.subrs != nil {
			fmt.Fprintf(&b, "/Subrs %d array\n", len(fs.subrs))
			for i, s := range fs.subrs {
				if s == nil {
					continue
				}
				e := csEncrypt(s, fs.encLenIV)
				fmt.Fprintf(&b, "dup %d %d RD ", i, len(e))
				b.Write(e)
				b.WriteString(" NP\n")
			}
			b.WriteString("ND\n")
		}
		if !fs.omit["CharStrings"] {
			if fs.charString != "" {
				b.WriteString("2 index /CharStrings " + fs.charString + " dup begin\n")
			} else {
				fmt.Fprintf(&b, "2 index /CharStrings %d dict dup begin\n", len(fs.order)+1)
			}
			for _, name := range fs.order {
				var e []byte
				if raw, ok := fs.rawGlyph[name]; ok {
					e = raw
				} else {
					e = csEncrypt(fs.glyphs[name], fs.encLenIV)
				}
				fmt.Fprintf(&b, "/%s %d RD ", name, len(e))
				b.Write(e)
				b.WriteString(" ND\n")
			}
			b.WriteString("end\n")
			b.WriteString("end\nreadonly put\nput\n")
		} else {
			b.WriteString("end\nput\n")
		}
	}
	b.WriteString("dup /FontName get exch definefont pop\n")
	return b.Bytes()
}

var simpleGlyph = append(append(csNum(0), csNum(500)...), 13, 14) // 0 500 hsbw endchar

func readFontWith(code []byte, subrs [][]byte, lenIV int) error {
	fs := fontSpec{encLenIV: lenIV, subrs: subrs, glyphs: map[string][]byte{".notdef": simpleGlyph, "A": code}, order: []string{".notdef", "A"}}
	_, err := type1.Read(bytes.NewReader(buildFont(fs)))
	return err
}

func fontKnobCases() []struct {
	name string
	data []byte
} {
	var out []struct {
		name string
		data []byte
	}
	add := func(name string, fs fontSpec) {
		if fs.glyphs == nil {
			fs.glyphs = map[string][]byte{".notdef": simpleGlyph, "A": simpleGlyph}
			fs.order = []string{".notdef", "A"}
		}
		out = append(out, struct {
			name string
			data []byte
		}{name, buildFont(fs)})
	}
	for _, l := range []string{"-9223372036854775808", "-1099511627776", "-2147483649", "-1", "0", "1", "4", "5", "7", "65536", "2147483648", "4611686018427387904", "9223372036854775807", "1.5", "(x)", "/n", "true"} {
		for _, clen := range []int{0, 1, 3, 4, 5, 9} {
			raw := bytes.Repeat([]byte{0x5a}, clen)
			add(fmt.Sprintf("lenIV=%s charstring-bytes=%d", l, clen), fontSpec{lenIV: l, encLenIV: 4,
				glyphs: map[string][]byte{".notdef": simpleGlyph}, order: []string{".notdef", "A"}, rawGlyph: map[string][]byte{"A": raw},
				subrs: [][]byte{{11}}})
		}
	}
	for _, o := range []string{"FontInfo", "Private", "CharStrings", "FontType"} {
		add("missing "+o, fontSpec{encLenIV: 4, omit: map[string]bool{o: true}})
	}
	wrong := []string{"5", "(str)", "/name", "[1 2]", "{1}", "true", "1.5", "mark", "currentfile", "systemdict", "[[1] [2] [3] [4] [5] [6]]", "[(a) 2 3 4 5 6]", "65536 array", "[1 2 3 4 5 6 7]"}
	for _, w := range wrong {
		add("FontInfo="+w, fontSpec{encLenIV: 4, fontInfo: w})
		add("CharStrings="+w, fontSpec{encLenIV: 4, charString: w})
		for _, key := range []string{"FontMatrix", "Encoding", "FontName", "FontType", "Private", "FontInfo", "CharStrings", "FontBBox", "PaintType"} {
			add(key+"="+w+" (top)", fontSpec{encLenIV: 4, top: "/" + key + " " + w + " def\n"})
		}
		for _, key := range []string{"BlueValues", "OtherBlues", "BlueScale", "BlueShift", "BlueFuzz", "StdHW", "StdVW", "ForceBold", "Subrs", "lenIV"} {
			add(key+"="+w+" (private)", fontSpec{encLenIV: 4, private: "/" + key + " " + w + " def\n"})
		}
		for _, key := range []string{"version", "Notice", "FullName", "FamilyName", "Weight", "ItalicAngle", "isFixedPitch", "UnderlinePosition", "UnderlineThickness"} {
			add(key+"="+w+" (FontInfo)", fontSpec{encLenIV: 4, fontInfo: "5 dict dup begin /" + key + " " + w + " def end"})
		}
	}
	// encodings with strange contents
	for _, e := range []string{"256 array", "255 array", "257 array", "[ 256 {/A} repeat ]", "[ 256 {1} repeat ]", "[ 255 {/A} repeat (s) ]",
		"[ 257 {/A} repeat ]", "[ 300 {/.notdef} repeat ]", "300 array 0 1 299 {1 index exch /.notdef put} for", "65535 array 0 1 65534 {1 index exch /A put} for", "[ 256 {/A} repeat 1 ]", "0 array", "[ /A ]",
		"StandardEncoding 0 300 getinterval", "StandardEncoding 1 255 getinterval", "StandardEncoding dup 65 (str) put", "[ 256 {StandardEncoding} repeat ]"} {
		add("Encoding="+e, fontSpec{encLenIV: 4, top: "/Encoding " + e + " def\n"})
	}
	// seac with hostile component codes
	// (a composite may name itself as base or as accent, next to a component with a real outline)
	pathGlyph := append(append(csNum(0), csNum(500)...), 13)
	pathGlyph = append(append(append(pathGlyph, csNum(10)...), csNum(20)...), 21)
	pathGlyph = append(append(append(pathGlyph, csNum(30)...), csNum(0)...), 5)
	pathGlyph = append(append(append(pathGlyph, csNum(0)...), csNum(40)...), 5, 9, 14)
	for _, codes := range [][2]int32{{0, 0}, {65, 65}, {-1, 65}, {65, 256}, {2147483647, -2147483648}, {1000, 1000}, {65, 66}, {66, 65}} {
		cs := append(append(csNum(0), csNum(500)...), 13)
		cs = append(cs, csNum(0)...)
		cs = append(cs, csNum(10)...)
		cs = append(cs, csNum(20)...)
		cs = append(cs, csNum(codes[0])...)
		cs = append(cs, csNum(codes[1])...)
		cs = append(cs, 12, 6)
		for _, enc := range []string{"", "/Encoding [ 256 {/B} repeat ] def\n", "/Encoding [ 256 {/.notdef} repeat ] def\n", "/Encoding 5 def\n",
			"/Encoding [ 256 {/B} repeat ] dup 65 /C put def\n", "/Encoding [ 256 {/C} repeat ] dup 66 /B put def\n", "/Encoding [ 256 {/C} repeat ] dup 65 /D put dup 66 /B put def\n"} {
			add(fmt.Sprintf("seac %d %d enc=%q", codes[0], codes[1], enc), fontSpec{encLenIV: 4, top: enc,
				glyphs: map[string][]byte{".notdef": simpleGlyph, "A": simpleGlyph, "B": cs, "C": pathGlyph, "D": cs}, order: []string{".notdef", "A", "B", "C", "D"}})
		}
	}
	// the font directory filled by other means than definefont, with other things than fonts
	for _, w := range append(wrong, "1 dict", "<< /FontType 1 >>", "<< /FontType 1 /CharStrings 5 /Private 1 dict /FontInfo 7 >>", "<< /FontType 1 /CharStrings 1 dict /Private 5 /Encoding 3 >>", "FontDirectory", "null") {
		for _, how := range []string{"FontDirectory /T %s put", "/T %s /Font defineresource pop", "/T %s definefont pop", "FontDirectory begin /T %s def end", "userdict /FontDirectory get /T %s put"} {
			prog := "%!PS\n" + fmt.Sprintf(how, w) + "\n"
			out = append(out, struct {
				name string
				data []byte
			}{"font directory entry by `" + fmt.Sprintf(how, w) + "`", []byte(prog)})
		}
	}
	// two fonts, no font
	out = append(out, struct {
		name string
		data []byte
	}{"no font", []byte("%!PS\n1 2 add\n")})
	one := buildFont(fontSpec{encLenIV: 4, glyphs: map[string][]byte{".notdef": simpleGlyph}, order: []string{".notdef"}})
	two := append(append([]byte{}, one...), bytes.Replace(one, []byte("/FontName /Test def"), []byte("/FontName /Test2 def"), 1)...)
	out = append(out, struct {
		name string
		data []byte
	}{"two fonts", two})
	return out
}

// ---------------------------------------------------------------------------
// PFB headers through type1.Read

func pfbBody(c *mc.Ctx, item int) mc.Verdict {
	b0, b1 := byte(item>>8), byte(item)
	lens := []uint32{0, 5, 0x7fffffff, 0xffffffff}
	l := lens[c.Choose(len(lens))]
	payload := []string{"", "%!PS\n", "%!PS\n1 2 add currentfile eexec abcdefgh\n"}[c.Choose(3)]
	data := append([]byte{0x80, 1, 0, 0, 0, 0}[:0], 0x80) // first byte 0x80 selects the PFB path
	_ = data
	in := []byte{b0, b1, byte(l), byte(l >> 8), byte(l >> 16), byte(l >> 24)}
	in = append(in, payload...)
	// also as a second segment after a valid first one
	if c.Choose(2) == 1 {
		in = append([]byte{0x80, 1, 5, 0, 0, 0, '%', '!', 'P', 'S', '\n'}, in...)
	} else if b0 != 0x80 {
		// without the 0x80 lead byte the input is not treated as PFB at all
		in = append([]byte{0x80, 2, 1, 0, 0, 0, 'x'}, in...)
	}
	_, err := type1.Read(bytes.NewReader(in))
	c.Step()
	v := mc.Pass(errClass(err), true)
	if c.Render() {
		v.Render = fmt.Sprintf("%x → %v", in, err)
	}
	return v
}

// ---------------------------------------------------------------------------
// AFM

var afmLines = []string{
	"StartFontMetrics 4.1", "EndFontMetrics", "FontName X", "FontName", "FullName A B C", "Version", "Notice x",
	"CapHeight 700", "CapHeight x", "CapHeight 1e999", "XHeight -5", "Ascender 99999999999999999999", "Descender", "UnderlinePosition 1 2",
	"UnderlineThickness NaN", "ItalicAngle Inf", "IsFixedPitch maybe", "StartCharMetrics 1", "StartCharMetrics", "EndCharMetrics",
	"C 65 ; WX 500 ; N A ; B 0 0 10 10 ;", "C -1 ; WX 500 ; N B ;", "C 300 ; WX 99999999999 ; N C ;", "C x ; N D ;", "C 65 ; WX y ; N E ;",
	"C 65 ; N A ; B 1 2 3 ;", "C 65 ; N F ; B a b c d ;", "C 65 ; N G ; L A ;", "C 65 ; N H ; L A B ; L A C ; L ;", "N ;", ";;;;", "C 9223372036854775808 ; N I ;",
	"StartKernPairs 1", "EndKernPairs", "KPX A B -10", "KPX A B", "KPX A B x", "KPX A B 99999999999", "",
	strings.Repeat("x", 70000),
	// announced counts: nothing may be allocated on the say-so of a header line
	"StartKernPairs 9223372036854775807", "StartKernPairs 20000000000", "StartKernPairs -9223372036854775808", "StartCharMetrics 9223372036854775807", "StartCharMetrics 30000000000",
	"StartComposites 9223372036854775807", "StartTrackKern 1152921504606846976", "StartKernPairs0 1152921504606846976",
}

func afmFamily(length int, budget time.Duration) mc.Family {
	n := len(afmLines)
	return mc.Family{
		Name: "afm-line-sequences", Items: n * n, Budget: budget,
		Rule: fmt.Sprintf("every sequence of 2..%d lines from %d line templates (section switches, fields with missing/huge/non-numeric values, malformed C lines, a 70,000-byte line, section headers announcing up to 2^63-1 entries) x line ends {LF, CRLF}; item = first two lines; non-trivial = every case", length, n),
		Body: func(c *mc.Ctx, item int) mc.Verdict {
			lines := []string{afmLines[item%n], afmLines[item/n]}
			l := c.Choose(length - 1)
			idx := c.Choose(pow(n, l))
			for i := 0; i < l; i++ {
				lines = append(lines, afmLines[idx%n])
				idx /= n
			}
			eol := []string{"\n", "\r\n"}[c.Choose(2)]
			in := strings.Join(lines, eol) + eol
			_, err := afm.Read(strings.NewReader(in))
			c.Step()
			out := "accepted"
			if err != nil {
				out = "rejected"
			}
			v := mc.Pass(out, true)
			if c.Render() {
				short := in
				if len(short) > 200 {
					short = short[:200] + "…"
				}
				v.Render = fmt.Sprintf("%q → %v", short, err)
			}
			return v
		},
		CrashKey: func(item int) string { return "C01:crash:afm" },
	}
}

// ---------------------------------------------------------------------------
// deep nesting: structures whose depth is bounded only by the length of the
// input (or by the operation budget), handed to operators that walk them.

func deepNestingFamily(tier string, budget time.Duration) mc.Family {
	type shape struct {
		name  string
		build func(n int) string
	}
	rep := strings.Repeat
	shapes := []shape{
		{"{{{…}}} bind", func(n int) string { return rep("{", n) + rep("}", n) + " bind" }},
		{"{{{…}}} exec", func(n int) string { return rep("{", n) + rep("}", n) + " exec" }},
		{"{{{…}}} dup length pop /p exch def", func(n int) string { return rep("{", n) + rep("}", n) + " dup length pop /p exch def" }},
		{"{ { { … 1 } } } bind exec", func(n int) string { return rep("{ ", n) + "1 " + rep("} ", n) + "bind exec" }},
		{"{{{… left open", func(n int) string { return rep("{", n) }},
		{"{{{…}}} closed once too often", func(n int) string { return rep("{", n) + rep("}", n+1) }},
		{"[ [ [ … left open", func(n int) string { return rep("[ ", n) }},
		{"<< << << … left open", func(n int) string { return rep("<< ", n) }},
		{"built by a loop: {} n { [ exch ] cvx } repeat bind", func(n int) string { return fmt.Sprintf("{} %d { [ exch ] cvx } repeat bind", n) }},
		{"built by a loop: [] n { [ exch ] } repeat dup length", func(n int) string { return fmt.Sprintf("[] %d { [ exch ] } repeat dup length", n) }},
	}
	depths := []int{99, 100, 101, 499, 500, 501, 502, 70000, 1000000, 8400000}
	if tier == "thorough" {
		depths = append(depths, 12000000)
	}
	through := []string{"interpreter, budget 1000", "interpreter, budget 3000000", "ReadCMap", "type1.Read"}
	n := len(shapes) * len(depths) * len(through)
	return mc.Family{
		Name: "deep-nesting", Items: n, Budget: budget, HangSeconds: 120,
		Rule: fmt.Sprintf("%d shapes (procedure literals nested n deep and then bound / executed / stored / left open / closed once too often; open array and dictionary marks; procedures and arrays nested by a loop) x n in %v x {interpreter with a budget of 1000 and of 3,000,000 operations, ReadCMap, type1.Read}: inputs of up to 2n+30 bytes; oracle as everywhere in C01 (returns within the watchdog, the process survives, memory cap); non-trivial = every case", len(shapes), depths),
		Body: func(c *mc.Ctx, item int) mc.Verdict {
			sh := shapes[item%len(shapes)]
			d := depths[(item/len(shapes))%len(depths)]
			how := item / len(shapes) / len(depths)
			prog := sh.build(d)
			var err error
			switch how {
			case 0, 1:
				intp := postscript.NewInterpreter()
				intp.MaxOps = 1000
				if how == 1 {
					intp.MaxOps = 3000000
				}
				err = intp.ExecuteString(prog)
			case 2:
				_, err = postscript.ReadCMap(strings.NewReader("%!PS-Adobe-3.0 Resource-CMap\n" + prog))
			case 3:
				_, err = type1.Read(strings.NewReader("%!PS-AdobeFont-1.0: T 1\n" + prog))
			}
			c.Step()
			out := errClass(err)
			v := mc.Pass(out, true)
			if c.Render() {
				v.Render = fmt.Sprintf("%s, n=%d, through %s → %s", sh.name, d, through[how], out)
			}
			return v
		},
		Describe: func(item int) string {
			return fmt.Sprintf("%s, n=%d, through %s", shapes[item%len(shapes)].name, depths[(item/len(shapes))%len(depths)], through[item/len(shapes)/len(depths)])
		},
		CrashKey: func(item int) string { return "C01:crash:deep-nesting:" + shapes[item%len(shapes)].name },
	}
}

// multiplyFamily: operators that push as much as they find (copy with a count
// taken from the stack, aload in a loop, a procedure that doubles what it was
// given): the stack, a container or the work doubles with every handful of
// operations, so a budget of a few hundred operations asks for 2^60 objects
// unless the operand stack and size limits apply to what operators push.
func multiplyFamily(budget time.Duration) mc.Family {
	progs := []string{
		"1 { count copy } loop",
		"1 { count copy } bind loop",
		"/f { count copy f } def 1 f",
		"1 2 { count copy } loop",
		"mark 1 { counttomark copy } loop",
		"1 1 { 2 copy count copy } loop",
		"[1 2] { aload aload } loop",
		"[1 2] { aload dup length 2 mul array astore } loop",
		"[ 1 { counttomark copy ] aload } loop",
		"1 100 { count copy } repeat",
		"0 1 100 { pop count copy } for",
		"{ 1 } { dup 2 array astore cvx } loop",
		"/d 1 dict def { d d length d put d d copy } loop",
		"(ab) { dup length 2 mul string } loop",
		"1 { count copy count copy } loop",
		"errordict /stackoverflow { count copy } put 1 { count copy } loop",
		"errordict /stackoverflow { pop pop count copy } put 1 { count copy } loop",
	}
	through := []string{"interpreter, budget 66", "interpreter, budget 1000", "interpreter, budget 3000000", "ReadCMap", "type1.Read"}
	n := len(progs) * len(through)
	return mc.Family{
		Name: "multiplying-operators", Items: n, Budget: budget, HangSeconds: 60,
		Rule: fmt.Sprintf("%d programs in which one operator pushes as much as is there already (count copy, counttomark copy, aload, astore of a doubled array, in loop / repeat / for / a self-calling procedure / an error handler) x {interpreter with budgets of 66, 1000 and 3,000,000 operations, ReadCMap, type1.Read}; oracle as everywhere in C01, and with a budget the operand stack afterwards holds at most 1010 objects (the limit of 500 plus what one operator may add to a full stack); non-trivial = all", len(progs)),
		Body: func(c *mc.Ctx, item int) mc.Verdict {
			prog := progs[item%len(progs)]
			how := item / len(progs)
			var err error
			depth := 0
			switch how {
			case 0, 1, 2:
				intp := postscript.NewInterpreter()
				intp.MaxOps = []int{66, 1000, 3000000}[how]
				err = intp.ExecuteString(prog)
				depth = len(intp.Stack)
			case 3:
				_, err = postscript.ReadCMap(strings.NewReader("%!PS-Adobe-3.0 Resource-CMap\n" + prog))
			case 4:
				_, err = type1.Read(strings.NewReader("%!PS-AdobeFont-1.0: T 1\n" + prog))
			}
			c.Step()
			if depth > 1010 {
				v := mc.Fail("C01:operand-stack-unbounded", fmt.Sprintf("program `%s` through %s: %d objects on the operand stack afterwards (limit 500) → %v", prog, through[how], depth, err))
				v.Render = prog
				return v
			}
			out := errClass(err)
			v := mc.Pass(out, true)
			if c.Render() {
				v.Render = fmt.Sprintf("%s through %s → %s", prog, through[how], out)
			}
			return v
		},
		Describe: func(item int) string {
			return fmt.Sprintf("%s through %s", progs[item%len(progs)], through[item/len(progs)])
		},
		CrashKey: func(item int) string { return "C01:crash:multiplying-operators" },
	}
}

// aliasFamily: names whose value is an executable name (taken out of a
// procedure body), bound in cycles of length 1..4 and executed in every
// context: each round of such a chain is an operation like any other.
func aliasFamily(budget time.Duration) mc.Family {
	var defs []string
	for n := 1; n <= 4; n++ {
		var sb strings.Builder
		for i := 0; i < n; i++ {
			fmt.Fprintf(&sb, "/n%d {n%d} 0 get def ", i, (i+1)%n)
		}
		defs = append(defs, sb.String())
	}
	defs = append(defs, "/n0 {n1} 0 get def /n1 {n0 n0} def ", "/n0 {n0} 0 get def /n1 {n0} def ", "userdict /n0 {n0} 0 get put systemdict /n1 {n0} 0 get put ", "/n0 {n1} 0 get def /n1 {n2} 0 get def /n2 {add} 0 get def 1 2 ")
	uses := []string{"n0", "{n0} exec", "/n0 load exec", "n1", "true {n0} if", "0 1 3 {pop n0} for", "[1 2] {pop n0} forall", "{n0} loop", "2 {n0} repeat", "{n0} bind exec", "errordict /undefined {n0} put zzz", "n0 n0"}
	through := []string{"interpreter, budget 1000", "interpreter, budget 3000000", "ReadCMap", "type1.Read"}
	n := len(defs) * len(uses) * len(through)
	return mc.Family{
		Name: "name-alias-cycles", Items: n, Budget: budget, HangSeconds: 60,
		Rule: fmt.Sprintf("%d sets of definitions whose values are executable names (cycles of 1..4 names, a cycle through a procedure, chains that end in an operator) x %d ways of executing one of them x {interpreter with budgets of 1000 and 3,000,000 operations, ReadCMap, type1.Read}; oracle as everywhere in C01; non-trivial = all", len(defs), len(uses)),
		Body: func(c *mc.Ctx, item int) mc.Verdict {
			prog := defs[item%len(defs)] + uses[(item/len(defs))%len(uses)]
			how := item / len(defs) / len(uses)
			var err error
			switch how {
			case 0, 1:
				intp := postscript.NewInterpreter()
				intp.MaxOps = 1000
				if how == 1 {
					intp.MaxOps = 3000000
				}
				err = intp.ExecuteString(prog)
			case 2:
				_, err = postscript.ReadCMap(strings.NewReader("%!PS-Adobe-3.0 Resource-CMap\n" + prog))
			case 3:
				_, err = type1.Read(strings.NewReader("%!PS-AdobeFont-1.0: T 1\n" + prog))
			}
			c.Step()
			out := errClass(err)
			v := mc.Pass(out, true)
			if c.Render() {
				v.Render = fmt.Sprintf("`%s` through %s → %s", prog, through[how], out)
			}
			return v
		},
		Describe: func(item int) string {
			return fmt.Sprintf("`%s%s` through %s", defs[item%len(defs)], uses[(item/len(defs))%len(uses)], through[item/len(defs)/len(uses)])
		},
		CrashKey: func(item int) string { return "C01:crash:name-alias-cycles:" + uses[(item/len(defs))%len(uses)] },
	}
}

// ---------------------------------------------------------------------------
// CMap reader

func cmapFamily(budget time.Duration) mc.Family {
	pro := "%!PS-Adobe-3.0 Resource-CMap\n/CIDInit /ProcSet findresource begin\n12 dict begin\nbegincmap\n/CMapName /Test def\n/CMapType 1 def\n"
	epi := "\nendcmap\nCMapName currentdict /CMap defineresource pop\nend\nend\n"
	bodies := []string{}
	vals := []string{"<00>", "<ffff>", "<>", "1", "-1", "9223372036854775807", "/n", "[1]", "[/a /b]", "(s)", "mark", "{}", "currentdict", "1.5",
		// codes of 8 and 9 bytes (differences beyond 63 bits), an array of strings as destination
		"<0000000000000000>", "<8000000000000000>", "<ffffffffffffffffff>", "[<0041> <0042>]"}
	kinds := []string{"codespacerange", "cidchar", "cidrange", "bfchar", "bfrange", "notdefchar", "notdefrange"}
	for _, k := range kinds {
		for _, cnt := range []string{"0", "1", "2", "100", "101", "-1", "9223372036854775807", "(x)", ""} {
			for _, a := range vals {
				for _, b := range vals {
					bodies = append(bodies, fmt.Sprintf("%s begin%s %s %s %s end%s", cnt, k, a, b, a, k))
				}
			}
		}
	}
	// ranges with bounds of up to nine bytes and every kind of destination (the size of
	// a range is a number of up to 72 bits)
	bounds := []string{"<00>", "<ffff>", "<0000000000000000>", "<8000000000000000>", "<7fffffffffffffff>", "<ffffffffffffffff>", "<000000000000000000>", "<ffffffffffffffffff>"}
	for _, k := range []string{"bfrange", "cidrange", "notdefrange", "codespacerange"} {
		for _, lo := range bounds {
			for _, hi := range bounds {
				for _, dst := range []string{"[<0041> <0042>]", "[/a /b]", "<0041>", "<ffffffff>", "[ 300 {/n} repeat ]", "[]", "0", "9223372036854775807", "-1"} {
					bodies = append(bodies, fmt.Sprintf("1 begin%s %s %s %s end%s", k, lo, hi, dst, k))
				}
			}
		}
	}
	return mc.Family{
		Name: "cmap-reader-bodies", Items: len(bodies), Budget: budget,
		Rule: "ReadCMap on the standard resource prologue/epilogue around every block `count begin<kind> a b a end<kind>` for 7 kinds x 9 declared counts (incl. -1, 101, maxint, a string, missing) x 18 x 18 operand values of every type (incl. codes of 8 and 9 bytes and arrays of strings), and 4 range kinds x 8 x 8 bounds of 1..9 bytes x 9 destinations; x {with, without} the epilogue; non-trivial = every case",
		Body: func(c *mc.Ctx, item int) mc.Verdict {
			in := pro + bodies[item]
			if c.Choose(2) == 0 {
				in += epi
			}
			_, err := postscript.ReadCMap(strings.NewReader(in))
			c.Step()
			out := "accepted"
			if err != nil {
				out = errClass(err)
			}
			v := mc.Pass(out, true)
			if c.Render() {
				v.Render = bodies[item] + " → " + out
			}
			return v
		},
		Describe: func(item int) string { return bodies[item] },
		CrashKey: func(item int) string { return "C01:crash:cmap" },
	}
}

func main() {
	mc.Main(mc.Program{
		Property: "C01",
		Assumptions: []string{
			"'always terminates' is judged by a progress watchdog (40-120 s without progress per case; a normal case takes microseconds)",
			"'absurd allocation' is judged under a 4 GiB address-space cap per worker process and Go's default 1 GB goroutine stack limit reduced to 256 MiB",
			"inputs outside the enumerated alphabets are not reached",
		},
		TrustedBase: []string{"Go runtime's detection of stack exhaustion / out of memory", "engine's attribution of a dead worker to the running item"},
		Explanation: "shim_available=" + fmt.Sprint(shimAvailable),
		Families: func(tier string) []mc.Family {
			budget := 40 * time.Second
			arity, csLen, scanLen, lexLen, afmLen := 2, 3, 2, 4, 3
			if tier == "thorough" {
				budget = 20 * time.Minute
				arity, csLen, scanLen, lexLen, afmLen = 3, 4, 3, 5, 4
			}
			knobs := fontKnobCases()
			all256 := make([]byte, 256)
			for i := range all256 {
				all256[i] = byte(i)
			}
			fams := []mc.Family{
				tuplesFamily("ps-operator-x-operand-tuples", operands, 0, arity, budget),
				tuplesFamily("ps-operator-x-operand-tuples-reduced-pool", operandsSmall, arity+1, arity+1, budget),
				seqFamily(2, seqPreambles, budget),
				boundaryCountFamily(budget),
			}
			if tier == "thorough" {
				fams = append(fams, seqFamily(3, seqPreambles, budget))
			} else {
				fams = append(fams, seqFamily(3, seqPreambles[1:2], budget))
			}
			fams = append(fams,
				scannerFamily("scanner-all-bytes", all256, scanLen, budget),
				scannerFamily("scanner-lexical-bytes", lexBytes, lexLen, budget),
				charstringFamily(csLen, budget),
				repeatFamily(budget),
				fanoutFamily(budget),
				seacChainFamily(budget),
				mc.Family{
					Name: "font-knobs", Items: len(knobs), Budget: budget,
					Rule: "type1.Read on generated fonts: /lenIV from 17 values (min int, -2^40, -1, 0..7, 65536, 2^31, 2^62, max int, real, string, name, boolean) x charstrings of 0..9 bytes; missing FontInfo/Private/CharStrings/FontType; every dictionary entry the reader looks at (9 top-level, 10 Private, 9 FontInfo) set to each of 14 wrongly typed values; odd Encoding arrays; seac with hostile component codes x 7 encodings (incl. composites that name themselves or each other as base or accent next to a glyph with an outline); the font directory filled through put / defineresource / definefont / def with 20 kinds of non-font values; no font; two fonts; non-trivial = every case",
					Body: func(c *mc.Ctx, item int) mc.Verdict {
						_, err := type1.Read(bytes.NewReader(knobs[item].data))
						c.Step()
						out := "accepted"
						if err != nil {
							out = "rejected"
						}
						v := mc.Pass(out, true)
						if c.Render() {
							v.Render = knobs[item].name + " → " + fmt.Sprint(err)
						}
						return v
					},
					Describe: func(i int) string { return knobs[i].name },
					CrashKey: func(i int) string {
						n := knobs[i].name
						if j := strings.Index(n, " charstring-bytes"); j > 0 {
							n = n[:j]
						}
						return "C01:crash:font:" + n
					},
				},
				mc.Family{Name: "pfb-headers-through-type1-read", Items: 65536, Body: pfbBody, Budget: budget,
					Rule: "type1.Read on PFB input: every value of a segment header's first two bytes x 4 declared lengths (0, 5, 2^31-1, 2^32-1) x 3 payloads x {first segment, second segment}; non-trivial = every case"},
				afmFamily(afmLen, budget),
				cmapFamily(budget),
				deepNestingFamily(tier, budget),
				aliasFamily(budget),
				multiplyFamily(budget),
			)
			return fams
		},
	})
}
