// C19 — font and metrics query methods agree with their definitions.
//
// Bounded-exhaustive enumeration of type1.Font and afm.Metrics values; every
// query method is called for every glyph name of the pool (present or absent)
// plus a name that is never present, and compared with the naive
// re-computation in verif/model/geomref.
//
// What the oracle demands (read from the property, nothing more):
//   - GlyphList: each glyph of the font exactly once and nothing else, .notdef
//     first (also when the glyph map has no .notdef entry: the reported glyph
//     count includes it), then the encoded glyphs in code order, then the
//     others alphabetically; len(list) == NumGlyphs() == number of glyph names
//     including .notdef.  A glyph named by several codes may stand at the
//     position of any of its codes (the property does not say which code
//     counts); names in the encoding without a glyph are ignored; ".notdef" in
//     the encoding assigns nothing.
//   - Glyph.BBox: smallest rectangle containing the end points of the move,
//     line and curve commands (control points and closepath do not count);
//     four zeros when there is no end point.  Exact comparison (no arithmetic).
//   - GlyphBBoxPDF: the same for the end points mapped by
//     ((a*x + c*y + e)*1000, (b*x + d*y + f)*1000); four zeros for a missing
//     glyph or one without end points.
//   - FontBBox / FontBBoxPDF: union of the non-empty glyph boxes.  The
//     representation has no "empty" flag: a box is reported as empty by four
//     zeros ("zero for missing or empty glyphs"), so a glyph whose end points
//     all map to the origin has a box which cannot be told from an empty one.
//     The oracle therefore accepts both readings for such a glyph (its box
//     skipped, or the origin included) and nothing else: a glyph without end
//     points never contributes, every other glyph must contribute.  One
//     consistency rule on top: when the font matrix has no translation,
//     FontBBox and FontBBoxPDF must take the same reading.
//   - widths: GlyphWidthPDF(name) = WidthX * a * 1000 for a glyph of the font,
//     the value for .notdef for any other name, 0 if there is no .notdef;
//     WidthsMapPDF has exactly the glyphs of the font as keys and agrees with
//     the per-glyph call.  For afm.Metrics (no font matrix; AFM units are
//     1/1000 em) the width is WidthX itself, compared exactly.
//   - BuiltinEncoding returns the Encoding field.
//
// Tolerances: values which involve products/sums that the library may form in
// another order (GlyphBBoxPDF, FontBBoxPDF, PDF widths of type1.Font, map vs.
// per-glyph width) are compared with |got-want| <= 1e-9 * max(1, largest term
// of the sum); everything else exactly.  A mapped glyph box counts as "may be
// the origin" when all four numbers are within that tolerance of 0.
//
// Preconditions on generated values: font matrices are axis-aligned (b = c =
// 0) as in the property's quantifier; encodings are nil or have 256 entries;
// AFM glyph boxes are well-formed (LL <= UR) or zero; the five-name pool is
// {.notdef, space, A, B, Aacute}; "zzz" is never a glyph.
package main

import (
	"fmt"
	"maps"
	"math"
	"math/bits"
	"slices"
	"sort"
	"strings"
	"time"

	"seehuhn.de/go/geom/matrix"
	"seehuhn.de/go/geom/rect"
	"seehuhn.de/go/postscript/afm"
	"seehuhn.de/go/postscript/funit"
	"seehuhn.de/go/postscript/type1"

	"verif/mc"
	"verif/model/geomref"
	"verif/model/observe"
)

var namePool = []string{".notdef", "space", "A", "B", "Aacute"}

const neverPresent = "zzz"

// ---------------------------------------------------------------- outlines

func mv(x, y float64) geomref.Cmd {
	return geomref.Cmd{Kind: geomref.Move, Pts: []geomref.Point{{X: x, Y: y}}}
}
func ln(x, y float64) geomref.Cmd {
	return geomref.Cmd{Kind: geomref.Line, Pts: []geomref.Point{{X: x, Y: y}}}
}
func cv(a, b, c, d, e, f float64) geomref.Cmd {
	return geomref.Cmd{Kind: geomref.Curve, Pts: []geomref.Point{{X: a, Y: b}, {X: c, Y: d}, {X: e, Y: f}}}
}
func cl() geomref.Cmd { return geomref.Cmd{Kind: geomref.Close} }

type outline struct {
	name string
	cmds []geomref.Cmd
}

var outlines = []outline{
	{"empty", nil},
	{"move-to-origin-only", []geomref.Cmd{mv(0, 0)}},
	{"triangle", []geomref.Cmd{mv(0, 0), ln(100, 0), ln(50, 200), cl()}},
	{"negative-quadrant", []geomref.Cmd{mv(-50, -30), ln(-10, -30), ln(-10, -5), cl()}},
	{"curve-controls-outside", []geomref.Cmd{mv(0, 0), cv(-100, 300, 400, 300, 200, 0), cl()}},
	{"two-contours", []geomref.Cmd{mv(0, 0), ln(10, 0), ln(10, 10), cl(), mv(500, 600), ln(510, 600), ln(510, 700), cl()}},
	{"touches-origin-from-below", []geomref.Cmd{mv(-100, -100), ln(0, -100), ln(0, 0), cl()}},
	{"first-point-not-extreme", []geomref.Cmd{mv(300, 300), ln(100, 400), ln(200, 50)}},
	{"point-cancelled-by-translation", []geomref.Cmd{mv(-100, 50)}},
	{"closepath-first", []geomref.Cmd{cl(), mv(5, 5), ln(6, 7)}},
	{"closepath-only", []geomref.Cmd{cl()}},
	{"ends-with-a-moveto-outside-the-rest", []geomref.Cmd{mv(10, 20), ln(110, 220), cl(), mv(300, -50)}},
	// (the command list is an exported field: it can hold what the builder methods never produce)
	{"closepath-with-numbers-and-an-undefined-command", []geomref.Cmd{mv(100, 100), ln(200, 300), {Kind: geomref.Close, Pts: []geomref.Point{{X: -500, Y: -400}}}, {Kind: geomref.Other, Raw: 9, Pts: []geomref.Point{{X: 1, Y: 2}, {X: 800, Y: 700}}}}},
	{"undefined-commands-only", []geomref.Cmd{{Kind: geomref.Other, Raw: 200, Pts: []geomref.Point{{X: 10, Y: 20}}}, {Kind: geomref.Other, Raw: 0, Pts: []geomref.Point{{X: 3, Y: 4}, {X: 5, Y: 6}, {X: 7, Y: 8}}}}},
	// thorough only from here
	{"single-point", []geomref.Cmd{mv(10, 20)}},
	{"curve-controls-outside-offset", []geomref.Cmd{mv(100, 100), cv(100, 500, 300, 500, 300, 100), ln(100, 100), cl()}},
	{"vertical-line-through-origin", []geomref.Cmd{mv(0, -20), ln(0, 30)}},
	{"fractional", []geomref.Cmd{mv(0.5, 0.25), ln(10.5, 20.75)}},
	{"curve-without-moveto", []geomref.Cmd{cv(1, 2, 3, 4, 50, 60)}},
	{"all-points-at-origin", []geomref.Cmd{mv(0, 0), ln(0, 0), cl()}},
}

const quickOutlines = 12

func applyOutline(g *type1.Glyph, o outline) {
	for _, c := range o.cmds {
		switch c.Kind {
		case geomref.Move:
			g.MoveTo(c.Pts[0].X, c.Pts[0].Y)
		case geomref.Line:
			g.LineTo(c.Pts[0].X, c.Pts[0].Y)
		case geomref.Curve:
			g.CurveTo(c.Pts[0].X, c.Pts[0].Y, c.Pts[1].X, c.Pts[1].Y, c.Pts[2].X, c.Pts[2].Y)
		case geomref.Close:
			if len(c.Pts) == 0 {
				g.ClosePath()
				break
			}
			g.Cmds = append(g.Cmds, type1.GlyphOp{Op: type1.OpClosePath, Args: flatPts(c.Pts)})
		case geomref.Other:
			g.Cmds = append(g.Cmds, type1.GlyphOp{Op: type1.GlyphOpType(c.Raw), Args: flatPts(c.Pts)})
		}
	}
}

func flatPts(pts []geomref.Point) []float64 {
	var out []float64
	for _, p := range pts {
		out = append(out, p.X, p.Y)
	}
	return out
}

var widthPool = []float64{500, 0, 250.5, -120, 1000}

// ---------------------------------------------------------------- matrices

var matrices = [][6]float64{
	{0.001, 0, 0, 0.001, 0, 0},
	{-0.001, 0, 0, 0.001, 0, 0},
	{0.001, 0, 0, -0.001, 0, 0},
	{0.001, 0, 0, 0, 0, 0},
	{0.0004, 0, 0, 0.002, 0, 0},
	{0.001, 0, 0, 0.001, 0.1, -0.05},
	{0, 0, 0, 0, 0, 0},                 // the unset matrix of a hand-built font: everything scales to 0
	{0.0010004, 0, 0, 0.0009996, 0, 0}, // almost, but not quite, the standard matrix
	// thorough only from here
	{0, 0, 0, 0.001, 0, 0},
	{1, 0, 0, 1, 0, 0},
	{1.0 / 2048, 0, 0, 1.0 / 2048, 0, 0},
	{-0.001, 0, 0, 0, 0.05, 0.05},
	{0, 0, 0, 0, 0.25, -0.5},
}

const quickMatrices = 8

// ---------------------------------------------------------------- encodings

// encKinds: the five kinds named in the design.
var encKindNames = []string{"nil", "all-notdef", "partial", "names-missing-glyphs", "two-codes-one-glyph"}

func encodingOfKind(kind int) []string {
	if kind == 0 {
		return nil
	}
	enc := make([]string, 256)
	for i := range enc {
		enc[i] = ".notdef"
	}
	switch kind {
	case 2:
		enc[66] = "A" // A after B in code order
		enc[65] = "B"
	case 3:
		enc[32] = "space"
		enc[65] = "A"
		enc[67] = "zzz"
		enc[193] = "Aacute"
		enc[255] = "Adieresis"
	case 4:
		enc[65] = "A"
		enc[66] = "B"
		enc[97] = "A"
		enc[0] = "space"
		enc[255] = "space"
	}
	return enc
}

var encCodes = []int{0, 65, 66, 255}
var encNames = []string{".notdef", "space", "A", "B", "Aacute", "zzz"}

// numEncodings: every assignment of a name from encNames to each of the four
// codes, plus nil.
func numEncodings() int { return 6*6*6*6 + 1 }

func encodingByIndex(idx int) ([]string, string) {
	if idx == 6*6*6*6 {
		return nil, "nil"
	}
	enc := make([]string, 256)
	for i := range enc {
		enc[i] = ".notdef"
	}
	var parts []string
	for _, c := range encCodes {
		n := encNames[idx%6]
		idx /= 6
		enc[c] = n
		if n != ".notdef" {
			parts = append(parts, fmt.Sprintf("%d=%s", c, n))
		}
	}
	return enc, "{" + strings.Join(parts, " ") + "}"
}

func setOfMask(mask int) (map[string]bool, []string) {
	set := map[string]bool{}
	var names []string
	for i, n := range namePool {
		if mask&(1<<i) != 0 {
			set[n] = true
			names = append(names, n)
		}
	}
	return set, names
}

// ---------------------------------------------------------------- findings

type finding struct{ key, detail string }

// Classified defects of the current tree are reported only when an execution
// shows nothing else.
var lowPriority = map[string]bool{
	"C19:afm.GlyphList:notdef-missing": true,
}

func verdict(fs []finding, render func() string, outcome string, nontrivial bool, c *mc.Ctx) mc.Verdict {
	if len(fs) > 0 {
		f := fs[0]
		for _, g := range fs {
			if !lowPriority[g.key] {
				f = g
				break
			}
		}
		v := mc.Fail(f.key, f.detail+" | "+render())
		v.Render = render()
		return v
	}
	v := mc.Pass(outcome, nontrivial)
	if c.Render() {
		v.Render = render()
	}
	return v
}

func flat(r rect.Rect) [4]float64    { return [4]float64{r.LLx, r.LLy, r.URx, r.URy} }
func flat2(b geomref.Box) [4]float64 { return b.Flat() }

func closeBox(got [4]float64, want geomref.Box, scale float64) bool {
	w := want.Flat()
	for i := range got {
		if !geomref.CloseTo(got[i], w[i], scale) {
			return false
		}
	}
	return true
}

// ---------------------------------------------------------------- type1.Font

type fontCase struct {
	mask     int
	enc      []string
	encDesc  string
	fm       [6]float64
	outline  [5]int // per pool name
	widthRot int
}

func (fc fontCase) String() string {
	var parts []string
	for i, n := range namePool {
		if fc.mask&(1<<i) != 0 {
			parts = append(parts, fmt.Sprintf("%s:%s/w=%g", n, outlines[fc.outline[i]].name, fc.width(i)))
		}
	}
	return fmt.Sprintf("type1.Font glyphs{%s} encoding=%s FontMatrix=%v", strings.Join(parts, " "), fc.encDesc, fc.fm)
}

func (fc fontCase) width(i int) float64 {
	return widthPool[(i+fc.outline[i]+fc.widthRot)%len(widthPool)]
}

func buildFont(fc fontCase) *type1.Font {
	set, _ := setOfMask(fc.mask)
	f := &type1.Font{
		FontInfo: &type1.FontInfo{FontName: "Test", FontMatrix: matrix.Matrix(fc.fm), IsFixedPitch: (fc.mask+fc.outline[1])%2 == 1, ItalicAngle: []float64{0, -12, 0}[(fc.mask+fc.outline[2])%3]},
		Glyphs:   map[string]*type1.Glyph{},
		Encoding: fc.enc,
	}
	for i, n := range namePool {
		if set[n] {
			g := f.NewGlyph(n, fc.width(i))
			applyOutline(g, outlines[fc.outline[i]])
		}
	}
	return f
}

// fontAnswers renders what every query method returns for f.
func fontAnswers(f *type1.Font) string {
	var sb strings.Builder
	fmt.Fprintf(&sb, "GlyphList=%q NumGlyphs=%d FontBBox=%v FontBBoxPDF=%v", f.GlyphList(), f.NumGlyphs(), f.FontBBox(), f.FontBBoxPDF())
	wm := f.WidthsMapPDF()
	for _, name := range append(append([]string(nil), namePool...), neverPresent) {
		fmt.Fprintf(&sb, " | %s:", name)
		if g := f.Glyphs[name]; g != nil {
			fmt.Fprintf(&sb, " BBox=%v", g.BBox())
		}
		w, ok := wm[name]
		fmt.Fprintf(&sb, " GlyphBBoxPDF=%v GlyphWidthPDF=%v map=%v/%v", f.GlyphBBoxPDF(name), f.GlyphWidthPDF(name), w, ok)
	}
	return sb.String()
}

func checkFont(c *mc.Ctx, fc fontCase) mc.Verdict {
	set, _ := setOfMask(fc.mask)
	f := buildFont(fc)
	render := func() string { return fc.String() }
	var fs []finding
	add := func(key, format string, a ...any) {
		fs = append(fs, finding{"C19:" + key, fmt.Sprintf(format, a...)})
	}

	// queries are observations: the font is what it was before, and what they
	// return belongs to the caller (overwriting it changes no later answer)
	// (the deep comparison of the whole value is made for one case in sixteen, chosen
	// by a pure function of the case, and so are the result-ownership checks)
	deep := (fc.mask+fc.widthRot+fc.outline[0]+fc.outline[1]+fc.outline[2]+fc.outline[3]+fc.outline[4]+len(fc.encDesc))%16 == 0
	fontBefore := ""
	if deep {
		fontBefore = observe.Dump(f)
	}
	if deep {
		l0 := f.GlyphList()
		keep := append([]string(nil), l0...)
		for i := range l0 {
			l0[i] = "overwritten"
		}
		_ = append(l0, "x")
		if l1 := f.GlyphList(); !slices.Equal(l1, keep) {
			add("type1.GlyphList:result-shared", "GlyphList() = %q, and %q after the caller overwrote the first result", keep, l1)
		}
		// (BuiltinEncoding is an accessor: it returns the Encoding field itself)
		w0 := f.WidthsMapPDF()
		keepW := maps.Clone(w0)
		for k := range w0 {
			w0[k] = -1
		}
		w0["overwritten"] = 1
		if w1 := f.WidthsMapPDF(); !maps.Equal(w1, keepW) {
			add("type1.WidthsMapPDF:result-shared", "WidthsMapPDF() = %v, and %v after the caller overwrote the first result", keepW, w1)
		}
		if deep {
			if after := observe.Dump(f); after != fontBefore {
				add("type1.queries-change-the-font", "the font value differs after GlyphList/WidthsMapPDF results were overwritten: %s", after)
			}
		}
	}
	// glyph list, count, encoding
	list := f.GlyphList()
	n := f.NumGlyphs()
	c.Steps(2)
	if class, msg := geomref.CheckGlyphList(list, set, fc.enc, n); class != "" {
		add("type1.GlyphList:"+class, "GlyphList() = %q, NumGlyphs() = %d: %s", list, n, msg)
	}
	be := f.BuiltinEncoding()
	c.Step()
	if len(be) != len(fc.enc) {
		add("type1.BuiltinEncoding:differs", "BuiltinEncoding has %d entries, Encoding has %d", len(be), len(fc.enc))
	} else {
		for i := range be {
			if be[i] != fc.enc[i] {
				add("type1.BuiltinEncoding:differs", "BuiltinEncoding[%d] = %q, Encoding[%d] = %q", i, be[i], i, fc.enc[i])
				break
			}
		}
	}

	// per-glyph queries
	wm := f.WidthsMapPDF()
	c.Step()
	var mustGS, mustPDF []geomref.Box
	mayGS, mayPDF := false, false
	maxScale := 1.0
	notdefWidth := 0.0
	if set[".notdef"] {
		notdefWidth = geomref.WidthPDF(fc.fm, fc.width(0))
	}
	queries := append(append([]string(nil), namePool...), neverPresent)
	for i, name := range queries {
		var wantGS, wantPDF geomref.Box
		wantGS.Empty, wantPDF.Empty = true, true
		scale := 1.0
		wantW := notdefWidth
		if set[name] {
			pts := geomref.EndPoints(outlines[fc.outline[i]].cmds)
			wantGS = geomref.Hull(pts)
			var mapped []geomref.Point
			for _, p := range pts {
				q, s := geomref.MapPDF(fc.fm, p)
				mapped = append(mapped, q)
				scale = math.Max(scale, s)
			}
			wantPDF = geomref.Hull(mapped)
			wantW = geomref.WidthPDF(fc.fm, fc.width(i))
			maxScale = math.Max(maxScale, scale)

			got := flat(f.Glyphs[name].BBox())
			c.Step()
			if got != wantGS.Flat() {
				add("type1.Glyph.BBox:wrong", "glyph %q: BBox() = %v, end points %v give %v", name, got, pts, wantGS)
			}
			if !wantGS.Empty {
				if wantGS.IsAllZero() {
					mayGS = true
				} else {
					mustGS = append(mustGS, wantGS)
				}
			}
			if !wantPDF.Empty {
				nearZero := true
				for _, v := range wantPDF.Flat() {
					if !geomref.CloseTo(v, 0, scale) {
						nearZero = false
					}
				}
				if nearZero {
					mayPDF = true
				} else {
					mustPDF = append(mustPDF, wantPDF)
				}
			}
		}
		got := flat(f.GlyphBBoxPDF(name))
		c.Step()
		if !closeBox(got, wantPDF, scale) {
			what := "wrong"
			if !set[name] {
				what = "absent-glyph-not-zero"
			}
			add("type1.GlyphBBoxPDF:"+what, "GlyphBBoxPDF(%q) = %v, expected %v", name, got, wantPDF.Flat())
		}
		gw := f.GlyphWidthPDF(name)
		c.Step()
		if !geomref.CloseTo(gw, wantW, math.Abs(wantW)) {
			what := "wrong"
			if !set[name] {
				what = "fallback-wrong"
			}
			add("type1.GlyphWidthPDF:"+what, "GlyphWidthPDF(%q) = %v, expected %v (advance width x FontMatrix[0] x 1000; .notdef or 0 for unknown names)", name, gw, wantW)
		}
		mw, inMap := wm[name]
		switch {
		case inMap != set[name]:
			add("type1.WidthsMapPDF:keys", "WidthsMapPDF has key %q: %v, glyph present: %v", name, inMap, set[name])
		case inMap && !geomref.CloseTo(mw, wantW, math.Abs(wantW)):
			add("type1.WidthsMapPDF:wrong", "WidthsMapPDF[%q] = %v, expected %v", name, mw, wantW)
		case inMap && !geomref.CloseTo(mw, gw, math.Abs(wantW)):
			add("type1.WidthsMapPDF:disagrees-with-GlyphWidthPDF", "WidthsMapPDF[%q] = %v but GlyphWidthPDF = %v", name, mw, gw)
		}
	}
	if len(wm) != len(set) {
		add("type1.WidthsMapPDF:keys", "WidthsMapPDF has %d keys, the font has %d glyphs", len(wm), len(set))
	}

	// font boxes
	fb := flat(f.FontBBox())
	c.Step()
	okGS := fb == geomref.Union(mustGS).Flat()
	if !okGS && mayGS {
		okGS = fb == geomref.Union(append(mustGS, geomref.Box{})).Flat()
	}
	if !okGS {
		add("type1.FontBBox:wrong", "FontBBox() = %v, union of the non-empty glyph boxes is %v (glyphs with all end points at the origin: %v)", fb, geomref.Union(mustGS), mayGS)
	}
	fbp := flat(f.FontBBoxPDF())
	c.Step()
	okPDF := closeBox(fbp, geomref.Union(mustPDF), maxScale)
	if !okPDF && mayPDF {
		okPDF = closeBox(fbp, geomref.Union(append(mustPDF, geomref.Box{})), maxScale)
	}
	if !okPDF {
		add("type1.FontBBoxPDF:wrong", "FontBBoxPDF() = %v, union of the non-empty glyph boxes is %v (glyphs mapped onto the origin: %v)", fbp, geomref.Union(mustPDF), mayPDF)
	}

	// Whichever reading is taken for a glyph whose end points all lie at the
	// origin, it is one reading: without a translation in the font matrix the
	// glyph is at the origin in both spaces, and the two font boxes must either
	// both count it or both skip it.
	if okGS && okPDF && mayGS && mayPDF && fc.fm[4] == 0 && fc.fm[5] == 0 {
		gsCounts := fb != geomref.Union(mustGS).Flat()
		pdfCounts := !closeBox(fbp, geomref.Union(mustPDF), maxScale)
		if gsCounts != pdfCounts && geomref.Union(mustGS).Flat() != geomref.Union(append(mustGS, geomref.Box{})).Flat() && !closeBox(flat2(geomref.Union(append(mustPDF, geomref.Box{}))), geomref.Union(mustPDF), maxScale) {
			add("type1.FontBBox:origin-glyph-counted-in-one-box-only", "FontBBox() = %v and FontBBoxPDF() = %v: a glyph whose end points all lie at the origin is counted in one of them and skipped in the other", fb, fbp)
		}
	}

	outcome := fmt.Sprintf("type1 glyphs=%d fontbox=%s origin-glyph=%v", len(set), map[bool]string{true: "zero", false: "nonzero"}[fbp == [4]float64{}], mayPDF || mayGS)
	nontrivial := len(list) > 1 || fbp != [4]float64{} || f.GlyphWidthPDF(".notdef") != 0
	if deep {
		if after := observe.Dump(f); after != fontBefore {
			add("type1.queries-change-the-font", "the font value differs after the query methods were called: %s", after)
		}
	}
	// The answers are functions of the font as it is now, not of what was asked
	// before: a font that has answered every query and is then edited in place
	// (every glyph gets another outline and width; the number of glyphs, the
	// encoding and the font matrix stay) answers like a newly built font with the
	// same contents.  (One case in four, chosen by a pure function of the case.)
	if (fc.mask+fc.widthRot+fc.outline[0]+2*fc.outline[1]+3*fc.outline[2]+fc.outline[3]+fc.outline[4])%4 == 0 {
		fc2 := fc
		for i := range fc2.outline {
			fc2.outline[i] = (fc.outline[i] + 1 + i) % len(outlines)
		}
		fc2.widthRot = fc.widthRot + 1
		donor := buildFont(fc2)
		for i, n := range namePool {
			if !set[n] {
				continue
			}
			if (i+fc.mask)%2 == 0 {
				*f.Glyphs[n] = *donor.Glyphs[n] // the same glyph value, new contents
			} else {
				f.Glyphs[n] = donor.Glyphs[n] // another glyph under the same name
			}
		}
		got, want := fontAnswers(f), fontAnswers(buildFont(fc2))
		c.Steps(2)
		if got != want {
			add("type1.answers-depend-on-earlier-queries", "after the font had answered all queries its glyphs were replaced by those of %s; it now answers %s, a newly built font with these contents answers %s", fc2.String(), got, want)
		}
	}
	return verdict(fs, render, outcome, nontrivial, c)
}

// ---------------------------------------------------------------- afm.Metrics

var afmBoxes = []rect.Rect{
	{},
	{LLx: 0, LLy: 0, URx: 500, URy: 700},
	{LLx: -100, LLy: -200, URx: 0, URy: 0},
	{LLx: 10, LLy: -5, URx: 20, URy: 5},
	{LLx: 0, LLy: 0, URx: 0, URy: 5},
	{LLx: 0, LLy: -5, URx: 0, URy: 0},
	{LLx: -3, LLy: 0, URx: 3, URy: 0},
	{LLx: 100, LLy: 100, URx: 100, URy: 100},
	{LLx: -50, LLy: -50, URx: -10, URy: -10},
	{LLx: 0.5, LLy: 0.25, URx: 10.5, URy: 20.75},
}

type afmCase struct {
	mask     int
	enc      []string
	encDesc  string
	box      [5]int
	widthRot int
}

func (ac afmCase) width(i int) float64 { return widthPool[(i+ac.box[i]+ac.widthRot)%len(widthPool)] }

func (ac afmCase) String() string {
	var parts []string
	for i, n := range namePool {
		if ac.mask&(1<<i) != 0 {
			parts = append(parts, fmt.Sprintf("%s:B=%v/WX=%g", n, flat(afmBoxes[ac.box[i]]), ac.width(i)))
		}
	}
	return fmt.Sprintf("afm.Metrics glyphs{%s} encoding=%s", strings.Join(parts, " "), ac.encDesc)
}

func checkMetrics(c *mc.Ctx, ac afmCase) mc.Verdict {
	set, _ := setOfMask(ac.mask)
	m := &afm.Metrics{Glyphs: map[string]*afm.GlyphInfo{}, Encoding: ac.enc, FontName: "Test"}
	// header fields that say something about the widths without defining any
	// (a pure function of the case: half of the cases are "fixed pitch", a third italic)
	m.IsFixedPitch = (ac.mask+ac.box[1])%2 == 1
	m.ItalicAngle = []float64{0, -12, 0}[(ac.mask+ac.box[2])%3]
	var boxes []geomref.Box
	for i, n := range namePool {
		if set[n] {
			b := afmBoxes[ac.box[i]]
			m.Glyphs[n] = &afm.GlyphInfo{WidthX: ac.width(i), BBox: b}
			if b != (rect.Rect{}) {
				boxes = append(boxes, geomref.Box{LLx: b.LLx, LLy: b.LLy, URx: b.URx, URy: b.URy})
			}
		}
	}
	render := func() string { return ac.String() }
	var fs []finding
	add := func(key, format string, a ...any) {
		fs = append(fs, finding{"C19:" + key, fmt.Sprintf(format, a...)})
	}
	deepM := (ac.mask+ac.widthRot+ac.box[0]+ac.box[1]+ac.box[2]+ac.box[3]+ac.box[4]+len(ac.encDesc))%16 == 0
	metricsBefore := ""
	if deepM {
		metricsBefore = observe.Dump(m)
	}
	if deepM {
		l0 := m.GlyphList()
		keep := append([]string(nil), l0...)
		for i := range l0 {
			l0[i] = "overwritten"
		}
		_ = append(l0, "x")
		if l1 := m.GlyphList(); !slices.Equal(l1, keep) {
			add("afm.GlyphList:result-shared", "GlyphList() = %q, and %q after the caller overwrote the first result", keep, l1)
		}
	}
	list := m.GlyphList()
	n := m.NumGlyphs()
	c.Steps(2)
	if class, msg := geomref.CheckGlyphList(list, set, ac.enc, n); class != "" {
		add("afm.GlyphList:"+class, "GlyphList() = %q, NumGlyphs() = %d: %s", list, n, msg)
	}
	fb := flat(m.FontBBoxPDF())
	c.Step()
	if want := geomref.Union(boxes).Flat(); fb != want {
		add("afm.FontBBoxPDF:wrong", "FontBBoxPDF() = %v, union of the non-zero glyph boxes is %v", fb, want)
	}
	notdefWidth := 0.0
	if set[".notdef"] {
		notdefWidth = ac.width(0)
	}
	for i, name := range append(append([]string(nil), namePool...), neverPresent) {
		want := notdefWidth
		what := "fallback-wrong"
		if set[name] {
			want = ac.width(i)
			what = "wrong"
		}
		got := m.GlyphWidthPDF(name)
		c.Step()
		if got != want {
			add("afm.GlyphWidthPDF:"+what, "GlyphWidthPDF(%q) = %v, expected %v", name, got, want)
		}
	}
	if deepM {
		if after := observe.Dump(m); after != metricsBefore {
			add("afm.queries-change-the-metrics", "the metrics value differs after the query methods were called: %s", after)
		}
	}
	outcome := fmt.Sprintf("afm glyphs=%d fontbox=%s", len(set), map[bool]string{true: "zero", false: "nonzero"}[fb == [4]float64{}])
	nontrivial := len(list) > 1 || fb != [4]float64{} || m.GlyphWidthPDF(".notdef") != 0
	return verdict(fs, render, outcome, nontrivial, c)
}

// ---------------------------------------------------------------- funit rectangles

var rectCoords = []int{-2, 0, 3}

// wellFormedRects: all rectangles with LL <= UR over rectCoords (36).
func wellFormedRects() [][4]int {
	var out [][4]int
	for _, llx := range rectCoords {
		for _, lly := range rectCoords {
			for _, urx := range rectCoords {
				for _, ury := range rectCoords {
					if llx <= urx && lly <= ury {
						out = append(out, [4]int{llx, lly, urx, ury})
					}
				}
			}
		}
	}
	return out
}

func rectBody(rects [][4]int) func(c *mc.Ctx, item int) mc.Verdict {
	return func(c *mc.Ctx, item int) mc.Verdict {
		n := len(rects)
		seq := [][4]int{rects[item/n], rects[item%n]}
		if k := c.Choose(n + 1); k < n {
			seq = append(seq, rects[k])
		}
		var r16 funit.Rect16
		var r funit.Rect
		var boxes []geomref.Box
		var fs []finding
		for _, q := range seq {
			o16 := funit.Rect16{LLx: funit.Int16(q[0]), LLy: funit.Int16(q[1]), URx: funit.Int16(q[2]), URy: funit.Int16(q[3])}
			o := funit.Rect{LLx: funit.Int(q[0]), LLy: funit.Int(q[1]), URx: funit.Int(q[2]), URy: funit.Int(q[3])}
			zero := q == [4]int{}
			if o16.IsZero() != zero || o.IsZero() != zero {
				fs = append(fs, finding{"C19:funit.IsZero:wrong", fmt.Sprintf("IsZero of %v: Rect16 %v, Rect %v", q, o16.IsZero(), o.IsZero())})
			}
			r16.Extend(o16)
			r.Extend(o)
			c.Steps(2)
			if !zero {
				boxes = append(boxes, geomref.Box{LLx: float64(q[0]), LLy: float64(q[1]), URx: float64(q[2]), URy: float64(q[3])})
			}
		}
		want := geomref.Union(boxes).Flat()
		g16 := [4]float64{float64(r16.LLx), float64(r16.LLy), float64(r16.URx), float64(r16.URy)}
		g := [4]float64{float64(r.LLx), float64(r.LLy), float64(r.URx), float64(r.URy)}
		if g16 != want {
			fs = append(fs, finding{"C19:funit.Rect16.Extend:wrong", fmt.Sprintf("zero rectangle extended by %v = %v, union of the non-zero rectangles is %v", seq, g16, want)})
		}
		if g != want {
			fs = append(fs, finding{"C19:funit.Rect.Extend:wrong", fmt.Sprintf("zero rectangle extended by %v = %v, union of the non-zero rectangles is %v", seq, g, want)})
		}
		render := func() string { return fmt.Sprintf("funit rectangles %v", seq) }
		return verdict(fs, render, fmt.Sprintf("funit rects=%d nonzero=%d", len(seq), len(boxes)), len(boxes) > 0, c)
	}
}

// ---------------------------------------------------------------- families

func families(tier string) []mc.Family {
	// budgets per family: they sum to 85 s (quick) / 16.5 min (thorough; the product family needs about 8 min of them on an idle machine)
	nOut, nMat, nRot := quickOutlines, quickMatrices, 1
	budgets := []time.Duration{6 * time.Second, 60 * time.Second, 6 * time.Second, 10 * time.Second, 3 * time.Second}
	if tier == "thorough" {
		nOut, nMat, nRot = len(outlines), len(matrices), 1
		budgets = []time.Duration{20 * time.Second, 900 * time.Second, 20 * time.Second, 40 * time.Second, 10 * time.Second}
	}
	nEnc := numEncodings()
	nKinds := len(encKindNames)
	rects := wellFormedRects()

	// default outline per pool position for the encoding families
	defOutline := [5]int{2, 0, 4, 3, 5}
	defBox := [5]int{1, 0, 3, 2, 8}

	fontEnc := func(c *mc.Ctx, item int) mc.Verdict {
		enc, desc := encodingByIndex(item % nEnc)
		return checkFont(c, fontCase{mask: item / nEnc, enc: enc, encDesc: desc, fm: matrices[0], outline: defOutline})
	}
	afmEnc := func(c *mc.Ctx, item int) mc.Verdict {
		enc, desc := encodingByIndex(item % nEnc)
		return checkMetrics(c, afmCase{mask: item / nEnc, enc: enc, encDesc: desc, box: defBox})
	}
	// item = (glyph set, matrix, encoding kind, width rotation); outlines by Choose
	fontGeom := func(c *mc.Ctx, item int) mc.Verdict {
		rot := item % nRot
		kind := (item / nRot) % nKinds
		mi := (item / nRot / nKinds) % nMat
		mask := item / nRot / nKinds / nMat
		fc := fontCase{mask: mask, enc: encodingOfKind(kind), encDesc: encKindNames[kind], fm: matrices[mi], widthRot: rot * 2}
		for i := range namePool {
			if mask&(1<<i) != 0 {
				fc.outline[i] = c.Choose(nOut)
			}
		}
		return checkFont(c, fc)
	}
	const afmRot = 2
	afmGeom := func(c *mc.Ctx, item int) mc.Verdict {
		rot := item % afmRot
		kind := (item / afmRot) % nKinds
		mask := item / afmRot / nKinds
		ac := afmCase{mask: mask, enc: encodingOfKind(kind), encDesc: encKindNames[kind], widthRot: rot * 2}
		for i := range namePool {
			if mask&(1<<i) != 0 {
				ac.box[i] = c.Choose(len(afmBoxes))
			}
		}
		return checkMetrics(c, ac)
	}
	descFont := func(item int) string { return fmt.Sprintf("type1 geometry item %d", item) }
	// item = (glyph set of one or two glyphs, matrix, encoding kind); every outline of the list by Choose
	var smallMasks []int
	for m := 1; m < 32; m++ {
		if bits.OnesCount(uint(m)) <= 2 {
			smallMasks = append(smallMasks, m)
		}
	}
	fontGeomAll := func(c *mc.Ctx, item int) mc.Verdict {
		kind := item % nKinds
		mi := (item / nKinds) % len(matrices)
		mask := smallMasks[item/nKinds/len(matrices)]
		fc := fontCase{mask: mask, enc: encodingOfKind(kind), encDesc: encKindNames[kind], fm: matrices[mi]}
		for i := range namePool {
			if mask&(1<<i) != 0 {
				fc.outline[i] = c.Choose(len(outlines))
			}
		}
		return checkFont(c, fc)
	}
	return []mc.Family{
		{
			Name: "type1/every-outline-in-small-fonts", Items: len(smallMasks) * len(matrices) * nKinds, Body: fontGeomAll, Budget: budgets[0],
			Rule:     fmt.Sprintf("item = glyph set of one or two glyphs (%d) x every font matrix (%d) x encoding kind (5); every present glyph takes every outline of the full list of %d by Choose - among them command lists that only a caller who fills the exported field can build (closepath carrying numbers, command values the format does not define): they are not moves, lines or curves and contribute nothing; checks and non-trivial as for type1/outlines-matrices", len(smallMasks), len(matrices), len(outlines)),
			Describe: descFont, CrashKey: func(int) string { return "C19:crash:type1/every-outline-in-small-fonts" },
		},
		{
			Name: "type1/encodings", Items: 32 * nEnc, Body: fontEnc, Budget: budgets[0],
			Rule:     "item = glyph set (all 32 subsets of {.notdef,space,A,B,Aacute}) x encoding (nil, or every assignment of a name from {.notdef = unassigned, space, A, B, Aacute, zzz} to each of the codes 0, 65, 66, 255: 1296 vectors incl. all-.notdef, partial, names without glyph, 2-4 codes for one glyph); fixed outlines, standard matrix; all query methods checked for all 6 names; non-trivial = the library's answers contain a list of >= 2 names, a non-zero font box or a non-zero .notdef width",
			Describe: func(i int) string { return fmt.Sprintf("type1 encoding item %d", i) }, CrashKey: func(int) string { return "C19:crash:type1/encodings" },
		},
		{
			Name: "type1/outlines-matrices", Items: 32 * nMat * nKinds * nRot, Body: fontGeom, Budget: budgets[1],
			Rule: fmt.Sprintf("item = glyph set (32) x font matrix (%d axis-aligned: standard, negative a, negative d, d = 0, non-uniform, with translation, all zero (unset), within 1e-6 of the standard one%s) x encoding kind (nil, all .notdef, partial, naming missing glyphs, two codes -> one glyph) x %d width assignment(s); every present glyph takes every outline of a family of %d (empty, move only, lines, curves with control points outside the end-point box, several contours, closepath, points at the origin, point cancelled by the translation%s) by Choose; all query methods for all 6 names; non-trivial as above",
				nMat, map[bool]string{true: ", a = 0, identity, 1/2048, negative with d = 0 and translation, translation only", false: ""}[tier == "thorough"], nRot, nOut, map[bool]string{true: ", closepath only, single point, fractional, curve without moveto, line through the origin", false: ""}[tier == "thorough"]),
			Describe: descFont, CrashKey: func(int) string { return "C19:crash:type1/outlines-matrices" },
		},
		{
			Name: "afm/encodings", Items: 32 * nEnc, Body: afmEnc, Budget: budgets[2],
			Rule:     "item = glyph set (32) x encoding (1297, as for type1/encodings); GlyphList, NumGlyphs, FontBBoxPDF, GlyphWidthPDF for all 6 names; non-trivial as above",
			Describe: func(i int) string { return fmt.Sprintf("afm encoding item %d", i) }, CrashKey: func(int) string { return "C19:crash:afm/encodings" },
		},
		{
			Name: "afm/boxes-widths", Items: 32 * nKinds * afmRot, Body: afmGeom, Budget: budgets[3],
			Rule:     fmt.Sprintf("item = glyph set (32) x encoding kind (5) x 2 width assignments; every present glyph takes every box of %d (zero, positive, touching the origin from below, straddling, degenerate lines through the origin, single point, negative, fractional) by Choose; non-trivial as above", len(afmBoxes)),
			Describe: func(i int) string { return fmt.Sprintf("afm geometry item %d", i) }, CrashKey: func(int) string { return "C19:crash:afm/boxes-widths" },
		},
		manyGlyphsFamily(budgets[0]),
		{
			Name: "funit/rect-union", Items: len(rects) * len(rects), Body: rectBody(rects), Budget: budgets[4],
			Rule:     "item = first two rectangles, Choose = optional third, all from the 36 well-formed rectangles with coordinates in {-2,0,3}; a zero Rect16/Rect extended by them in turn must be the union of the non-zero ones; non-trivial = at least one non-zero rectangle",
			Describe: func(i int) string { return fmt.Sprintf("funit item %d", i) }, CrashKey: func(int) string { return "C19:crash:funit/rect-union" },
		},
	}
}

// manyGlyphsFamily: glyph lists longer than the small-slice paths of sort
// implementations (insertion sort up to 12 elements), with encoded and
// unencoded glyphs interleaved in every residue pattern.
func manyGlyphsFamily(budget time.Duration) mc.Family {
	sizes := []int{11, 12, 13, 14, 20, 33, 64, 100, 300, 65535, 65536, 70000}
	// encoding patterns: which glyphs (by index in name order) are encoded, and at which codes
	type pat struct {
		name string
		code func(i, n int) int // -1 = not encoded
	}
	pats := []pat{
		{"none encoded", func(i, n int) int { return -1 }},
		{"every third glyph, descending codes", func(i, n int) int {
			if i%3 == 0 {
				return 255 - (i/3)%256
			}
			return -1
		}},
		{"every second glyph, ascending codes", func(i, n int) int {
			if i%2 == 1 {
				return (i / 2) % 256
			}
			return -1
		}},
		{"the alphabetically last five glyphs", func(i, n int) int {
			if i >= n-5 {
				return 100 + (n - i)
			}
			return -1
		}},
		{"only the middle glyph", func(i, n int) int {
			if i == n/2 {
				return 65
			}
			return -1
		}},
		{"all glyphs, scrambled codes", func(i, n int) int { return (i * 37) % 256 }},
	}
	return mc.Family{
		Name: "glyphlist/many-glyphs", Items: len(sizes) * len(pats) * 2 * 2 * 3, Budget: budget,
		Rule: fmt.Sprintf("item = number of glyphs %v x encoding pattern (none; every third glyph at descending codes; every second at ascending codes; the alphabetically last five; only the middle one; all at scrambled codes) x with/without .notdef x {type1.Font, afm.Metrics} x {plain names; eight names that sort before '.notdef' ($a + -x .a .Z ! ,c and the empty name) mixed in; the same with a nil encoding}; names are not in insertion order; GlyphList checked against the definition (each glyph once, .notdef first, encoded glyphs in code order, the rest alphabetically, length = NumGlyphs); non-trivial = every case", sizes),
		Body: func(c *mc.Ctx, item int) mc.Verdict {
			isAfm := item%2 == 1
			withNotdef := (item/2)%2 == 1
			p := pats[(item/4)%len(pats)]
			n := sizes[(item/4/len(pats))%len(sizes)]
			variant := item / 4 / len(pats) / len(sizes)
			names := make([]string, n)
			for i := range names {
				// alphabetical order differs from numeric and from insertion order
				names[i] = fmt.Sprintf("g%03d%c", (i*7919)%1000, 'a'+rune(i%26))
				if n > 1000 {
					names[i] = fmt.Sprintf("g%06d%c", (i*7919)%1000000, 'a'+rune(i%26)) // (distinct for up to a million glyphs)
				}
			}
			if variant >= 1 {
				// names on both sides of ".notdef" in byte order
				copy(names, []string{"$a", "+", "-x", ".a", ".Z", "!", ",c", ""})
			}
			sort.Strings(names)
			enc := make([]string, 256)
			for i := range enc {
				enc[i] = ".notdef"
			}
			if variant == 2 {
				enc = nil
			}
			present := map[string]bool{}
			for i, nm := range names {
				present[nm] = true
				if code := p.code(i, n); code >= 0 && enc != nil && enc[code] == ".notdef" {
					enc[code] = nm
				}
			}
			if withNotdef {
				present[".notdef"] = true
			}
			var list []string
			var count int
			if isAfm {
				m := &afm.Metrics{Glyphs: map[string]*afm.GlyphInfo{}, Encoding: enc}
				// insert in an order unrelated to the names
				for i := range names {
					m.Glyphs[names[(i*31)%n]] = &afm.GlyphInfo{WidthX: 500}
				}
				for len(m.Glyphs) < n { // (31 and n not coprime)
					for _, nm := range names {
						m.Glyphs[nm] = &afm.GlyphInfo{WidthX: 500}
					}
				}
				if withNotdef {
					m.Glyphs[".notdef"] = &afm.GlyphInfo{WidthX: 250}
				}
				list, count = m.GlyphList(), m.NumGlyphs()
			} else {
				f := &type1.Font{FontInfo: &type1.FontInfo{}, Private: &type1.PrivateDict{}, Glyphs: map[string]*type1.Glyph{}, Encoding: enc}
				for _, nm := range names {
					f.Glyphs[nm] = &type1.Glyph{WidthX: 500}
				}
				if withNotdef {
					f.Glyphs[".notdef"] = &type1.Glyph{WidthX: 250}
				}
				list, count = f.GlyphList(), f.NumGlyphs()
			}
			c.Step()
			what := fmt.Sprintf("%d glyphs (%s), %s, .notdef present=%v, %s", n, []string{"plain names", "names around .notdef", "names around .notdef, nil encoding"}[variant], p.name, withNotdef, map[bool]string{true: "afm.Metrics", false: "type1.Font"}[isAfm])
			if class, msg := geomref.CheckGlyphList(list, present, enc, count); class != "" {
				v := mc.Fail("C19:"+map[bool]string{true: "afm", false: "type1"}[isAfm]+".GlyphList:many-glyphs:"+class, what+": "+msg)
				v.Render = what
				return v
			}
			v := mc.Pass("glyphlist-ok", true)
			if c.Render() {
				v.Render = what + fmt.Sprintf(" → %d names, in order", len(list))
			}
			return v
		},
	}
}

func main() {
	mc.Main(mc.Program{
		Property: "C19",
		Assumptions: []string{
			"font matrices are axis-aligned (b = c = 0), as in the property's quantifier",
			"encodings are nil or have 256 entries; '.notdef' in an encoding assigns nothing",
			"a glyph named by several codes may stand at the position of any of them",
			"a glyph box of four zeros is indistinguishable from 'empty': for a glyph whose end points all lie at (map to) the origin both 'skipped' and 'origin included' are accepted in the font box",
			"products/sums formed in a different order are compared with relative tolerance 1e-9 (absolute 1e-9 below magnitude 1); everything else exactly",
			"AFM glyph boxes are well-formed (LL <= UR) or zero",
		},
		TrustedBase: []string{"geomref (naive recomputation)", "math.Min/Max, float64 arithmetic"},
		Families:    families,
		Explanation: "C19: one execution = one font/metrics value with every query method called for every name of the pool and one name that is never present.",
	})
}
