// C04 — the tokenizer reads every PostScript lexical form as the object it
// denotes; DSC comments are collected in order; String.PS / Name.PS read back.
//
// Decided through the public API only: the text `{ tok sep tok ... }` is run
// with Interpreter.ExecuteString and the Procedure left on the operand stack
// (tokens inside braces are stored unexecuted) is compared with the object
// sequence the text was generated from (model/pstoken, written from PLRM 3.2).
// DSC comments are read from Interpreter.DSC.
//
// What the oracle demands, and what it leaves open:
//   - integers: Integer with the same value.  The integer range is taken to be
//     that of the library's Integer type (64 bit); a decimal integer literal
//     outside it denotes a real (PLRM 3.2.2).
//   - reals: Real equal to the float64 nearest to the exact decimal value, or,
//     where the value is not exactly representable, one of its two neighbours
//     (the PLRM does not fix the rounding).  -0.0 and 0.0 compare equal.
//   - radix numbers are only generated for bases 2..36 without leading zeros in
//     the base and values 0..2^63-1.  `1#0`, `37#0`, `2#2`, `-8#17` ... are
//     names ("a token that is not a valid number is a name").
//   - strings: identical bytes.  names: identical bytes and the same
//     literal/executable attribute (Name vs Operator).
//   - DSC: `%%Key: value` at the start of a line; the value is the rest of the
//     line without leading blanks/tabs; `%%+ text` continuation lines are
//     joined with one space (the library's documented reading, scanner_test.go).
//     Values never end in white space, are never empty when continued.
//
// Deliberately not generated (DESIGN.md C04): control
// bytes other than the six white-space characters, ASCII85 groups >= 2^32,
// radix prefixes with leading zeros, reals that overflow float64, radix
// numbers >= 2^63, a bare `>` or `)`, `//name`, white space inside `<~`/`~>`.
package main

import (
	"bytes"
	"fmt"
	"io"
	"regexp"
	"strings"
	"time"

	"seehuhn.de/go/postscript"

	"verif/mc"
	"verif/model/eexecref"
	"verif/model/pstoken"
)

// ---------------------------------------------------------------------------
// pool

type entry struct {
	obj pstoken.Object
	sp  []pstoken.Spelling
	// short: indices into sp used where the full spelling set is too large
	short []int
}

func spell(kind pstoken.Kind, texts ...string) []pstoken.Spelling {
	var out []pstoken.Spelling
	for _, t := range texts {
		out = append(out, pstoken.MkSpelling(kind, t))
	}
	return out
}

func pick(n int, want ...int) []int {
	var out []int
	for _, w := range want {
		if w < n {
			out = append(out, w)
		}
	}
	if len(out) == 0 {
		out = []int{0}
	}
	return out
}

func intEntry(v int64) entry {
	sp := spell(pstoken.Int, pstoken.IntSpellings(v)...)
	e := entry{obj: pstoken.Object{Kind: pstoken.Int, Int: v, Label: fmt.Sprint(v)}, sp: sp}
	if v >= 0 {
		e.short = pick(len(sp), 0, 1, 5, 8) // decimal, +decimal, 16#UPPER, 36#lower
	} else {
		e.short = pick(len(sp), 0, 1)
	}
	return e
}

func bigIntRealEntry(dec string) entry {
	// a decimal integer literal beyond the integer range denotes a real
	neg := strings.HasPrefix(dec, "-")
	digits := strings.TrimPrefix(dec, "-")
	r := pstoken.RealValue(neg, digits, 0)
	texts := []string{dec}
	if neg {
		texts = append(texts, "-00"+digits)
	} else {
		texts = append(texts, "+"+digits, "00"+digits)
	}
	return entry{obj: pstoken.Object{Kind: pstoken.Real, Rat: r, Label: dec + " (integer literal too large: real)"}, sp: spell(pstoken.Real, texts...), short: []int{0, 1}}
}

func realEntry(neg bool, digits string, exp10 int) entry {
	sp := spell(pstoken.Real, pstoken.RealSpellings(neg, digits, exp10)...)
	r := pstoken.RealValue(neg, digits, exp10)
	f, _ := r.Float64()
	e := entry{obj: pstoken.Object{Kind: pstoken.Real, Rat: r, Label: fmt.Sprintf("real %v", f)}, sp: sp}
	// first (plain or exponent) form, one exponent form from the middle, a leading-dot form, the last
	e.short = pick(len(sp), 0, len(sp)/3, 2*len(sp)/3, len(sp)-1)
	return e
}

func nameEntry(n string) entry {
	return entry{obj: pstoken.Object{Kind: pstoken.ExecName, Name: n, Label: "name " + fmt.Sprintf("%q", n)}, sp: spell(pstoken.ExecName, n), short: []int{0}}
}

func litEntry(n string) entry {
	return entry{obj: pstoken.Object{Kind: pstoken.LitName, Name: n, Label: "literal name " + fmt.Sprintf("%q", n)}, sp: spell(pstoken.LitName, "/"+n), short: []int{0}}
}

func hexOf(content []byte, mask uint16, drop bool) string {
	return "<" + string(pstoken.HexDigits(content, mask, drop)) + ">"
}

func a85Of(content []byte, z bool) string {
	return "<~" + string(pstoken.A85Body(content, z)) + "~>"
}

func strEntry(content string, extra ...string) entry {
	c := []byte(content)
	var texts []string
	lits := pstoken.LiteralSpellings(c, pstoken.LitOptions{})
	texts = append(texts, lits...)
	texts = append(texts, hexOf(c, 0, false), a85Of(c, true))
	texts = append(texts, extra...)
	oct := pstoken.LiteralSpellings(c, pstoken.LitOptions{Octal: true})
	texts = append(texts, oct[len(oct)-1])
	sp := spell(pstoken.String, dedupeStrings(texts)...)
	e := entry{obj: pstoken.Object{Kind: pstoken.String, Str: c, Label: fmt.Sprintf("string %q", content)}, sp: sp}
	n := len(lits)
	e.short = pick(len(sp), 0, n, n+1, len(sp)-1) // first literal, hex, ASCII85, last (octal)
	return e
}

func dedupeStrings(ss []string) []string {
	seen := map[string]bool{}
	var out []string
	for _, s := range ss {
		if !seen[s] {
			seen[s] = true
			out = append(out, s)
		}
	}
	return out
}

func procEntry(inner []pstoken.Object, label string, texts ...string) entry {
	return entry{obj: pstoken.Object{Kind: pstoken.Proc, Proc: inner, Label: "procedure " + label}, sp: spell(pstoken.Proc, texts...), short: pick(len(texts), 0, 1)}
}

var pool = func() []entry {
	var p []entry
	for _, v := range []int64{0, 1, -1, 17, 2147483647, 2147483648, -2147483648, -2147483649, 9223372036854775807, -9223372036854775807, -9223372036854775808} {
		p = append(p, intEntry(v))
	}
	for _, d := range []string{"9223372036854775808", "-9223372036854775809", "18446744073709551616", "100000000000000000000"} {
		p = append(p, bigIntRealEntry(d))
	}
	p = append(p,
		realEntry(false, "0", 0),
		realEntry(false, "15", -1),
		realEntry(true, "5", -1),
		realEntry(false, "1", 5),
		realEntry(false, "1", -5),
		realEntry(true, "2", -3),
		realEntry(false, "1236", 9),
		realEntry(false, "34028235", 31),
		realEntry(false, "1", 308),
		realEntry(true, "25", -2),
	)
	for _, n := range []string{
		"abc", "a", "$", "a.b", "@a!", "true", "\x80\xff", "a\"'\\~#^|`", "-", "+", ".",
		// start with digits or look like numbers, but are not (PLRM 3.2.2)
		"1_0", "1_0.5", "1e1_0", "+1_0", "0_0", "1__0", "_1", "1_",
		"0x1p4", "0X1P-2", "0x1.8p1", "-0x1p4", "0x_1p4", "0x10", "0x", "0b11", "0o17",
		"1e", "1E", "1e+", "e5", "1+", "1-", "--1", "+-1", "1.2.3", "1E5x", "1e5e5", "+.", "-.", ".e5", "1d5",
		"Inf", "NaN", "infinity", "-inf", "+Inf", "nan",
		// radix look-alikes
		"1#0", "37#0", "0#0", "2#2", "8#8", "16#G", "8#", "#8", "100#1", "-8#17", "+8#17", "8#-17", "8#1_7", "16#1.5",
	} {
		p = append(p, nameEntry(n))
	}
	for _, n := range []string{"", "a", "abc", "1", "1_0", "+", "16#FF", "\x80\xff", "a.b-c"} {
		p = append(p, litEntry(n))
	}
	p = append(p,
		strEntry("", "< >", "<~ ~>", "(\\\n)"),
		strEntry("abc", "<61 62\n63>", "<6162 63>"),
		strEntry("a(b)c\n", "(a\\(b\\)c\\n)"),
		strEntry(")(", "<29 28>"),
		strEntry("%}/{", "(%}/{)"),
		strEntry("\\"),
		strEntry("\x00\xff", "<00FF>", "<00Ff>"),
		strEntry("\x00\x00\x00\x00", "<~!!!!!~>", "<~z~>"),
		strEntry("\x057", "(\\0057)"),
		strEntry("p", "<7>", "< 7 >"),
		strEntry("\n\n", "(\r\n\r\n)", "(\r\r)"),
	)
	litA := pstoken.Object{Kind: pstoken.LitName, Name: "a"}
	one := pstoken.Object{Kind: pstoken.Int, Int: 1}
	empty := pstoken.Object{Kind: pstoken.Proc}
	p = append(p,
		procEntry(nil, "{}", "{}", "{ }", "{%c\n}"),
		procEntry([]pstoken.Object{litA, one}, "{/a 1}", "{/a 1}", "{ /a\t1 }", "{/a%c\r1}"),
		procEntry([]pstoken.Object{empty}, "{{}}", "{{}}", "{ { } }"),
	)
	for _, n := range []string{"[", "]", "<<", ">>"} {
		p = append(p, nameEntry(n))
	}
	return p
}()

type spRef struct {
	e, s int // pool entry, spelling index
}

func allSpellings(short bool) []spRef {
	var out []spRef
	for ei, e := range pool {
		if short {
			for _, si := range e.short {
				out = append(out, spRef{ei, si})
			}
		} else {
			for si := range e.sp {
				out = append(out, spRef{ei, si})
			}
		}
	}
	return out
}

// outer objects of the quick triples: one per lexical class
func outerPool(thorough bool) []int {
	want := map[string]bool{"0": true, "-1": true, "real 1.5": true, "real 100000": true, `name "abc"`: true, `name "1e"`: true, `name "+"`: true,
		`name "16#G"`: true, `literal name ""`: true, `literal name "abc"`: true, `string "abc"`: true, `string ""`: true, "procedure {/a 1}": true, `name "["`: true, `name ">>"`: true, `name "<<"`: true}
	more := map[string]bool{`name "."`: true, `name "1E5x"`: true, `name "Inf"`: true, `name "37#0"`: true, `name "\x80\xff"`: true, `name "]"`: true,
		`literal name "1"`: true, `literal name "16#FF"`: true, `literal name "a.b-c"`: true,
		"2147483647": true, "-2147483648": true, "9223372036854775807": true, "-9223372036854775808": true,
		"9223372036854775808 (integer literal too large: real)": true, "-9223372036854775809 (integer literal too large: real)": true,
		"real 0": true, "real -0.5": true, "real 1e-05": true, "real 1e+308": true,
		`string "a(b)c\n"`: true, `string ")("`: true, `string "\\"`: true, `string "\n\n"`: true, `string "p"`: true, `string "\x00\xff"`: true}
	var out []int
	for i, e := range pool {
		switch {
		case want[e.obj.Label]:
			out = append(out, i)
		case thorough && (more[e.obj.Label] || e.obj.Kind == pstoken.Proc):
			out = append(out, i)
		}
	}
	return out
}

// ---------------------------------------------------------------------------
// separators

type sep struct {
	text string
	name string
}

var seps = []sep{
	{" ", "SP"}, {"\t", "TAB"}, {"\r", "CR"}, {"\n", "LF"}, {"\r\n", "CRLF"}, {"\f", "FF"}, {"\x00", "NUL"},
	{"%c\n", "comment+LF"}, {"%c\r", "comment+CR"}, {"%({<\r\n", "comment+CRLF"}, {"%\n", "empty-comment"}, {" % x\n\t", "SP+comment+LF+TAB"},
	{"", "nothing"},
	// PLRM 3.2.2: a comment runs to the next newline or form feed
	{"%c\f", "comment+FF"}, {"% )}\f\f", "comment+FF+FF"},
}

const sepNothing = 12

// subsets for the triples (quick: sepsFew, thorough: sepsSome)
var sepsFew = []int{0, 4, 8, sepNothing, 13}
var sepsSome = []int{0, 1, 2, 3, 4, 6, 7, 8, sepNothing, 13, 14}

func legalSeps(a, b pstoken.Spelling, subset []int) []int {
	var out []int
	for _, i := range subset {
		if i == sepNothing && !pstoken.CanAbut(a, b) {
			continue
		}
		out = append(out, i)
	}
	return out
}

var allSepIdx = func() []int {
	out := make([]int, len(seps))
	for i := range out {
		out[i] = i
	}
	return out
}()

var braceOpen = pstoken.MkSpelling(pstoken.ExecName, "{")
var braceClose = pstoken.MkSpelling(pstoken.ExecName, "}")

// ---------------------------------------------------------------------------
// comparison

type mismatch struct {
	class  string // key suffix
	detail string
	weak   bool // belongs to a narrowly recognised class of number-syntax defects
}

// The two narrowly recognised classes of mis-scanned names: spellings that
// strconv.ParseFloat accepts beyond PostScript number syntax and that come
// back as a Real.
var hexFloatRe = regexp.MustCompile(`^[+-]?0[xX][0-9a-fA-F_]*\.?[0-9a-fA-F_]*[pP][+-]?[0-9_]+$`)
var underscoreFloatRe = regexp.MustCompile(`^[+-]?[0-9_]*\.?[0-9_]*([eE][+-]?[0-9_]+)?$`)

func describeGot(o postscript.Object) string {
	switch o := o.(type) {
	case postscript.Integer:
		return fmt.Sprintf("Integer %d", int64(o))
	case postscript.Real:
		return fmt.Sprintf("Real %v", float64(o))
	case postscript.String:
		return fmt.Sprintf("String %q", []byte(o))
	case postscript.Name:
		return fmt.Sprintf("Name /%q", string(o))
	case postscript.Operator:
		return fmt.Sprintf("Operator %q", string(o))
	case postscript.Procedure:
		return fmt.Sprintf("Procedure of %d", len(o))
	}
	return fmt.Sprintf("%T %v", o, o)
}

func gotKind(o postscript.Object) string {
	switch o.(type) {
	case postscript.Integer:
		return "integer"
	case postscript.Real:
		return "real"
	case postscript.String:
		return "string"
	case postscript.Name:
		return "litname"
	case postscript.Operator:
		return "name"
	case postscript.Procedure:
		return "proc"
	}
	return "other"
}

// compare returns nil if got is the object want denotes.  text is the
// spelling that was used (for classification only).
func compare(got postscript.Object, want pstoken.Object, text string) *mismatch {
	mm := func(class string, weak bool) *mismatch {
		return &mismatch{class: class, weak: weak, detail: fmt.Sprintf("token %q: expected %s, got %s", text, want.Label, describeGot(got))}
	}
	switch want.Kind {
	case pstoken.Int:
		if g, ok := got.(postscript.Integer); ok {
			if int64(g) == want.Int {
				return nil
			}
			return mm("token:integer-wrong-value", false)
		}
		return mm("token:integer-read-as-"+gotKind(got), false)
	case pstoken.Real:
		if g, ok := got.(postscript.Real); ok {
			if pstoken.RealMatches(want.Rat, float64(g)) {
				return nil
			}
			return mm("token:real-wrong-value", false)
		}
		return mm("token:real-read-as-"+gotKind(got), false)
	case pstoken.String:
		if g, ok := got.(postscript.String); ok {
			if bytes.Equal(g, want.Str) {
				return nil
			}
			flavour := "literal"
			if strings.HasPrefix(text, "<~") {
				flavour = "ascii85"
			} else if strings.HasPrefix(text, "<") {
				flavour = "hex"
			}
			if flavour == "literal" && strings.Contains(text, "\r\n\n") && onlyLFsMissing(want.Str, g) {
				return mm("string:literal:line-feeds-after-CR-LF-dropped", true)
			}
			return mm("string:"+flavour+":wrong-bytes", false)
		}
		return mm("token:string-read-as-"+gotKind(got), false)
	case pstoken.LitName:
		if g, ok := got.(postscript.Name); ok {
			if string(g) == want.Name {
				return nil
			}
			return mm("token:literal-name-wrong-bytes", false)
		}
		return mm("token:literal-name-read-as-"+gotKind(got), false)
	case pstoken.ExecName:
		if g, ok := got.(postscript.Operator); ok {
			if string(g) == want.Name {
				return nil
			}
			return mm("token:name-wrong-bytes", false)
		}
		_, isInt := got.(postscript.Integer)
		_, isReal := got.(postscript.Real)
		if isInt || isReal {
			switch {
			case isReal && hexFloatRe.MatchString(want.Name):
				return mm("number-syntax:hex-float-spelling-read-as-number", true)
			case isReal && strings.Contains(want.Name, "_") && underscoreFloatRe.MatchString(want.Name):
				return mm("number-syntax:underscore-spelling-read-as-number", true)
			case strings.Contains(want.Name, "#"):
				return mm("number-syntax:invalid-radix-spelling-read-as-number", false)
			}
			return mm("number-syntax:name-read-as-number", false)
		}
		return mm("token:name-read-as-"+gotKind(got), false)
	case pstoken.Proc:
		g, ok := got.(postscript.Procedure)
		if !ok {
			return mm("token:procedure-read-as-"+gotKind(got), false)
		}
		if len(g) != len(want.Proc) {
			return mm("token:procedure-wrong-length", false)
		}
		for i := range g {
			if m := compare(g[i], want.Proc[i], text); m != nil {
				return m
			}
		}
		return nil
	}
	return mm("harness:unknown-kind", false)
}

// onlyLFsMissing reports whether got arises from want by deleting LF bytes only.
func onlyLFsMissing(want, got []byte) bool {
	if len(got) >= len(want) {
		return false
	}
	j := 0
	for _, b := range want {
		if j < len(got) && got[j] == b {
			j++
		} else if b != '\n' {
			return false
		}
	}
	return j == len(got)
}

// dataWithEOF delivers as much as fits and reports io.EOF together with the last bytes.
type dataWithEOF struct {
	data []byte
	pos  int
}

func (r *dataWithEOF) Read(p []byte) (int, error) {
	n := copy(p, r.data[r.pos:])
	r.pos += n
	if r.pos == len(r.data) {
		return n, io.EOF
	}
	return n, nil
}

// runTokens executes text and compares the resulting procedure with want.
func runTokens(c *mc.Ctx, text string, want []pstoken.Object, spellings []string, outcome string) mc.Verdict {
	intp := postscript.NewInterpreter()
	var err error
	// the tokens must be read the same way however the text arrives: by a pure
	// function of the text half of the cases are delivered by a reader that
	// returns the final bytes together with io.EOF in the same Read call
	// (permitted by io.Reader), the other half by strings.Reader
	if len(text)%2 == 1 {
		err = intp.Execute(&dataWithEOF{data: []byte(text)})
	} else {
		err = intp.ExecuteString(text)
	}
	c.Step()
	fail := func(class, detail string) mc.Verdict {
		r := fmt.Sprintf("program %q", text)
		v := mc.Fail("C04:"+class, detail+" | "+r)
		v.Render = r
		return v
	}
	if err != nil {
		return fail("token:scan-error", fmt.Sprintf("Execute returned %v; expected the objects %s", err, labels(want)))
	}
	if len(intp.Stack) != 1 {
		return fail("token:wrong-stack", fmt.Sprintf("expected one procedure on the stack, found %d objects", len(intp.Stack)))
	}
	proc, ok := intp.Stack[0].(postscript.Procedure)
	if !ok {
		return fail("token:wrong-stack", fmt.Sprintf("expected a procedure on the stack, found %T", intp.Stack[0]))
	}
	if len(proc) != len(want) {
		var got []string
		for _, o := range proc {
			got = append(got, describeGot(o))
		}
		return fail("token:wrong-token-count", fmt.Sprintf("expected %d objects %s, got %d: %s", len(want), labels(want), len(proc), strings.Join(got, ", ")))
	}
	var first, firstStrong *mismatch
	typed := false
	for i := range want {
		if _, isOp := proc[i].(postscript.Operator); !isOp {
			typed = true
		}
		m := compare(proc[i], want[i], spellings[i])
		if m == nil {
			continue
		}
		if first == nil {
			first = m
		}
		if !m.weak && firstStrong == nil {
			firstStrong = m
		}
	}
	// a defect outside the narrowly recognised number-syntax classes is never
	// hidden behind one of them
	if firstStrong != nil {
		return fail(firstStrong.class, firstStrong.detail)
	}
	if first != nil {
		return fail(first.class, first.detail)
	}
	v := mc.Pass(outcome, typed)
	if c.Render() {
		v.Render = fmt.Sprintf("program %q -> %s", text, labels(want))
	}
	return v
}

func labels(objs []pstoken.Object) string {
	var ss []string
	for _, o := range objs {
		l := o.Label
		if l == "" {
			l = o.Kind.String()
		}
		ss = append(ss, l)
	}
	return "[" + strings.Join(ss, "; ") + "]"
}

// ---------------------------------------------------------------------------
// token families

func singlesBody(refs []spRef) func(c *mc.Ctx, item int) mc.Verdict {
	return func(c *mc.Ctx, item int) mc.Verdict {
		r := refs[item]
		e := pool[r.e]
		s := e.sp[r.s]
		lead := legalSeps(braceOpen, s, allSepIdx)
		trail := legalSeps(s, braceClose, allSepIdx)
		l := seps[lead[c.Choose(len(lead))]]
		t := seps[trail[c.Choose(len(trail))]]
		text := "{" + l.text + s.Text + t.text + "}"
		return runTokens(c, text, []pstoken.Object{e.obj}, []string{s.Text}, e.obj.Kind.String())
	}
}

var wraps = [][2]string{{"", ""}, {" ", "\n"}}

func pairsBody(refs []spRef, subset []int) func(c *mc.Ctx, item int) mc.Verdict {
	return func(c *mc.Ctx, item int) mc.Verdict {
		ra := refs[item]
		rb := refs[c.Choose(len(refs))]
		a, b := pool[ra.e], pool[rb.e]
		sa, sb := a.sp[ra.s], b.sp[rb.s]
		ls := legalSeps(sa, sb, subset)
		sp := seps[ls[c.Choose(len(ls))]]
		w := wraps[c.Choose(len(wraps))]
		text := "{" + w[0] + sa.Text + sp.text + sb.Text + w[1] + "}"
		return runTokens(c, text, []pstoken.Object{a.obj, b.obj}, []string{sa.Text, sb.Text}, a.obj.Kind.String()+","+b.obj.Kind.String())
	}
}

type tripleItem struct {
	left int
	mid  spRef
}

func triplesBody(items []tripleItem, outer []int, subset []int) func(c *mc.Ctx, item int) mc.Verdict {
	return func(c *mc.Ctx, item int) mc.Verdict {
		it := items[item]
		a, m := pool[it.left], pool[it.mid.e]
		b := pool[outer[c.Choose(len(outer))]]
		sa, sm, sb := a.sp[0], m.sp[it.mid.s], b.sp[0]
		l1 := legalSeps(sa, sm, subset)
		s1 := seps[l1[c.Choose(len(l1))]]
		l2 := legalSeps(sm, sb, subset)
		s2 := seps[l2[c.Choose(len(l2))]]
		text := "{" + sa.Text + s1.text + sm.Text + s2.text + sb.Text + "}"
		return runTokens(c, text, []pstoken.Object{a.obj, m.obj, b.obj}, []string{sa.Text, sm.Text, sb.Text}, "middle:"+m.obj.Kind.String())
	}
}

// ---------------------------------------------------------------------------
// string families

type strItem struct {
	content []byte
	opts    pstoken.LitOptions
}

var repBytes = []byte{0, 7, 8, '\n', '\r', ' ', '(', ')', '0', '7', '8', '9', '\\', 'a', 'n', 0x7f, 0x80, 0xff}

func literalItems(thorough bool) []strItem {
	var items []strItem
	full := pstoken.LitOptions{Octal: true, Backslash: true}
	gaps := pstoken.LitOptions{Octal: true, Backslash: true, Gaps: true}
	items = append(items, strItem{nil, gaps})
	// every single byte, every form, with line continuations around it
	for b := 0; b < 256; b++ {
		items = append(items, strItem{[]byte{byte(b)}, gaps})
	}
	// two bytes: every form of each
	if thorough {
		for b1 := 0; b1 < 256; b1++ {
			for b2 := 0; b2 < 256; b2++ {
				items = append(items, strItem{[]byte{byte(b1), byte(b2)}, full})
			}
		}
	} else {
		seen := map[[2]byte]bool{}
		for b := 0; b < 256; b++ {
			for _, r := range repBytes {
				for _, pr := range [][2]byte{{byte(b), r}, {r, byte(b)}} {
					if !seen[pr] {
						seen[pr] = true
						items = append(items, strItem{[]byte{pr[0], pr[1]}, full})
					}
				}
			}
		}
	}
	// two bytes over a small alphabet with line continuations at every position
	small := []byte{'a', '7', '8', '\n', '\r', '(', ')', '\\', 0, 0xff}
	for _, b1 := range small {
		for _, b2 := range small {
			items = append(items, strItem{[]byte{b1, b2}, gaps})
		}
	}
	// nesting: up to 5 bytes over ( ) a \ LF with raw/escaped parentheses and all newline forms
	nest := []byte{'(', ')', 'a', '\\', '\n'}
	maxLen := 4
	if thorough {
		maxLen = 5
	}
	var rec func(cur []byte)
	rec = func(cur []byte) {
		if len(cur) >= 3 {
			items = append(items, strItem{append([]byte(nil), cur...), pstoken.LitOptions{}})
		}
		if len(cur) == maxLen {
			return
		}
		for _, b := range nest {
			rec(append(cur, b))
		}
	}
	rec(nil)
	return items
}

// spelling lists are pure functions of the item; cache them per process
var litCache = map[int][]string{}

func literalBody(items []strItem) func(c *mc.Ctx, item int) mc.Verdict {
	return func(c *mc.Ctx, item int) mc.Verdict {
		it := items[item]
		sps, ok := litCache[item]
		if !ok {
			sps = pstoken.LiteralSpellings(it.content, it.opts)
			if len(litCache) > 64 {
				litCache = map[int][]string{}
			}
			litCache[item] = sps
		}
		if len(sps) == 0 {
			return mc.Pass("no-legal-spelling", false)
		}
		s := sps[c.Choose(len(sps))]
		obj := pstoken.Object{Kind: pstoken.String, Str: it.content, Label: fmt.Sprintf("string %q", it.content)}
		cls := "plain"
		switch {
		case it.opts.Gaps:
			cls = "with-continuations"
		case it.opts.Octal:
			cls = "escapes"
		}
		// the string is followed directly by a digit token so that an escape
		// reading past the closing parenthesis would show
		v := runTokens(c, "{"+s+"7}", []pstoken.Object{obj, {Kind: pstoken.Int, Int: 7, Label: "7"}}, []string{s, "7"}, "literal/"+cls)
		return v
	}
}

var strWS = []string{" ", "\t", "\r", "\n", "\r\n", "\f", "\x00"}
var strWS2 = []string{" ", "\r\n", "\x00"} // kinds of a second insertion

type encItem struct {
	content []byte
}

func hexItems(thorough bool) []encItem {
	var items []encItem
	items = append(items, encItem{nil})
	for b := 0; b < 256; b++ {
		items = append(items, encItem{[]byte{byte(b)}})
	}
	alpha := []byte{0x00, 0x4a, 0xf0, 0xab}
	if thorough {
		alpha = []byte{0x00, 0x4a, 0xf0, 0xab, 0xff, 0x09}
	}
	for _, a := range alpha {
		for _, b := range alpha {
			items = append(items, encItem{[]byte{a, b}})
			for _, d := range alpha {
				items = append(items, encItem{[]byte{a, b, d}})
			}
		}
	}
	return items
}

var hexMasks = []uint16{0x0000, 0xffff, 0x5555, 0xaaaa, 0x3c96}

func hexBody(items []encItem) func(c *mc.Ctx, item int) mc.Verdict {
	return func(c *mc.Ctx, item int) mc.Verdict {
		content := items[item].content
		mask := hexMasks[c.Choose(len(hexMasks))]
		drop := false
		if len(content) > 0 && content[len(content)-1]&15 == 0 {
			drop = c.Choose(2) == 1
		}
		digits := pstoken.HexDigits(content, mask, drop)
		ins := map[int]string{}
		// white space at up to two positions (0 = none)
		n := len(digits) + 1
		p1 := c.Choose(n + 1)
		if p1 > 0 {
			ins[p1-1] = strWS[c.Choose(len(strWS))]
			p2 := c.Choose(n - p1 + 1) // later positions only
			if p2 > 0 {
				ins[p1-1+p2] = strWS2[c.Choose(len(strWS2))]
			}
		}
		s := pstoken.WrapWithInserts("<", digits, ">", ins)
		obj := pstoken.Object{Kind: pstoken.String, Str: content, Label: fmt.Sprintf("string %q", content)}
		out := "hex/even"
		if drop {
			out = "hex/odd-digit-count"
		}
		return runTokens(c, "{"+s+"}", []pstoken.Object{obj}, []string{s}, out)
	}
}

func a85Items(thorough bool) []encItem {
	var items []encItem
	items = append(items, encItem{nil})
	for b := 0; b < 256; b++ {
		items = append(items, encItem{[]byte{byte(b)}})
	}
	reps := []byte{0, 1, 0x7f, 0x80, 0xff, 'a'}
	if thorough {
		for a := 0; a < 256; a++ {
			for b := 0; b < 256; b++ {
				items = append(items, encItem{[]byte{byte(a), byte(b)}})
			}
		}
	} else {
		for _, a := range reps {
			for _, b := range reps {
				items = append(items, encItem{[]byte{a, b}})
			}
		}
	}
	gen := func(alpha []byte, lo, hi int) {
		var rec func(cur []byte)
		rec = func(cur []byte) {
			if len(cur) >= lo {
				items = append(items, encItem{append([]byte(nil), cur...)})
			}
			if len(cur) == hi {
				return
			}
			for _, b := range alpha {
				rec(append(cur, b))
			}
		}
		rec(nil)
	}
	gen([]byte{0, 0xff, 'a'}, 3, 6)
	gen([]byte{0, 'a'}, 7, 9)
	if thorough {
		gen([]byte{0, 0xff, 'a'}, 7, 8)
	}
	return items
}

var a85WS = []string{" ", "\n", "\r\n", "\x00", "\t", "\f", "\r"}

func a85Body(items []encItem) func(c *mc.Ctx, item int) mc.Verdict {
	return func(c *mc.Ctx, item int) mc.Verdict {
		content := items[item].content
		useZ := true
		hasZeroGroup := false
		for i := 0; i+4 <= len(content); i += 4 {
			if content[i] == 0 && content[i+1] == 0 && content[i+2] == 0 && content[i+3] == 0 {
				hasZeroGroup = true
			}
		}
		if hasZeroGroup {
			useZ = c.Choose(2) == 0
		}
		body := pstoken.A85Body(content, useZ)
		ins := map[int]string{}
		p := c.Choose(len(body) + 2) // 0 = none, else before body[p-1] (or before ~>)
		if p > 0 {
			ins[p-1] = a85WS[c.Choose(len(a85WS))]
		}
		s := pstoken.WrapWithInserts("<~", body, "~>", ins)
		obj := pstoken.Object{Kind: pstoken.String, Str: content, Label: fmt.Sprintf("string %q", content)}
		out := fmt.Sprintf("ascii85/tail-%d", len(content)%4)
		if hasZeroGroup && useZ {
			out += "/z"
		}
		return runTokens(c, "{"+s+"}", []pstoken.Object{obj}, []string{s}, out)
	}
}

// ---------------------------------------------------------------------------
// DSC

var eols = []string{"\n", "\r", "\r\n"}
var eolNames = []string{"LF", "CR", "CRLF"}

type dscSpec struct {
	key   string
	colon string // "" = no-colon form (no value)
	value string
}

var dscKeys = []string{"A", "Title"}
var dscColons = []string{":", ": ", ":\t", ":  "}
var dscValues = []string{"x", "x y", "(a) %b", "v:w 1"}
var dscConts = []string{"m", "m  n", "%%z", ""} // (the last: a continuation line with nothing on it)
var dscContSeps = []string{" ", "", "\t "}
var dscPositions = []string{"first-line", "after-code-line", "after-plain-comment", "after-blank-line", "inside-procedure", "second-Execute"}

// dscBody: item = (position, first comment's key/colon/value); choices: the
// line ends, continuation lines, and a second comment.
func dscBody(thorough bool) func(c *mc.Ctx, item int) mc.Verdict {
	return func(c *mc.Ctx, item int) mc.Verdict { return dscCase(c, item, thorough) }
}

func dscCase(c *mc.Ctx, item int, thorough bool) mc.Verdict {
	pos := item % len(dscPositions)
	item /= len(dscPositions)
	ki := item % len(dscKeys)
	item /= len(dscKeys)
	// value index len(dscValues) = `%%Key` without colon and value; len+1 = `%%Key:` with empty value
	vi := item % (len(dscValues) + 2)
	item /= len(dscValues) + 2
	ci := item % len(dscColons)

	var text strings.Builder
	var want []pstoken.DSC
	eol := func() string { return eols[c.Choose(len(eols))] }
	eol1 := eol() // line end of the first comment line

	comment := func(key string, vi, ci int, allowCont bool) {
		text.WriteString("%%" + key)
		val := ""
		switch {
		case vi == len(dscValues):
			// no colon, no value
			allowCont = false
		case vi == len(dscValues)+1:
			text.WriteString(":")
			allowCont = false
		default:
			val = dscValues[vi]
			text.WriteString(dscColons[ci] + val)
		}
		text.WriteString(eol1)
		if allowCont {
			switch c.Choose(3) {
			case 1:
				// one continuation line: every text x blank form x line end
				ct := dscConts[c.Choose(len(dscConts))]
				cs := dscContSeps[c.Choose(len(dscContSeps))]
				text.WriteString("%%+" + cs + ct + eol())
				val += " " + ct
			case 2:
				// two continuation lines
				text.WriteString("%%+ m" + eol())
				cs := dscContSeps[c.Choose(2)]
				text.WriteString("%%+" + cs + "q r" + eol())
				val += " m q r"
			}
		}
		want = append(want, pstoken.DSC{Key: key, Value: val})
	}

	preEOL := eol1
	if thorough && pos >= 1 && pos <= 4 {
		preEOL = eol()
	}
	var pre string
	switch pos {
	case 1:
		pre = "1 2" + preEOL
	case 2:
		pre = "%!PS-Adobe-3.0" + preEOL
	case 3:
		pre = preEOL
	case 4:
		pre = "{ 1" + preEOL
	case 5:
		pre = "" // executed separately below
	}
	comment(dscKeys[ki], vi, ci, true)
	// optionally a second comment directly after
	second := c.Choose(6)
	switch second {
	case 1:
		comment("EOF", len(dscValues), 0, false)
	case 2:
		comment("Next", 1, 1, false)
	case 3:
		// a structured comment ended by a form feed (PLRM 3.2.2), code on the same line
		text.WriteString("%%Last: ended by a form feed\f7 pop" + eol1)
		want = append(want, pstoken.DSC{Key: "Last", Value: "ended by a form feed"})
	case 4:
		text.WriteString("%%Bare\f 7 pop %%NotDSC: mid-line\f8 pop" + eol1)
		want = append(want, pstoken.DSC{Key: "Bare", Value: ""})
	case 5:
		// what follows the form feed is on the same line: `%%+` there is an ordinary comment
		text.WriteString("%%Tail: ended by a form feed\f%%+ not a continuation line" + eol1)
		want = append(want, pstoken.DSC{Key: "Tail", Value: "ended by a form feed"})
	}
	var post string
	switch pos {
	case 4:
		post = "2 } pop"
	default:
		// (a program may also end by executing `stop`: the comments read up to there count all the same)
		post = []string{"", "3 pop", "%plain\n", "stop", "4 pop stop 5 6 7", "{stop} exec"}[c.Choose(6)]
	}
	// at the very end of the file the last line end may be missing
	body := text.String()
	if post == "" && c.Choose(2) == 1 {
		body = strings.TrimRight(body, "\r\n")
	}

	intp := postscript.NewInterpreter()
	var err error
	if pos == 5 {
		err = intp.ExecuteString("%%First: run" + "\n" + "1 pop")
		want = append([]pstoken.DSC{{Key: "First", Value: "run"}}, want...)
		if err == nil {
			err = intp.ExecuteString(body + post)
		}
	} else {
		err = intp.ExecuteString(pre + body + post)
	}
	c.Step()
	prog := fmt.Sprintf("program %q (%s)", pre+body+post, dscPositions[pos])
	fail := func(class, detail string) mc.Verdict {
		v := mc.Fail("C04:dsc:"+class, detail+" | "+prog)
		v.Render = prog
		return v
	}
	if err != nil {
		return fail("execute-error", fmt.Sprintf("Execute returned %v", err))
	}
	stackWant := 0
	if pos == 1 {
		stackWant = 2
	}
	if len(intp.Stack) != stackWant {
		return fail("code-around-comments-disturbed", fmt.Sprintf("operand stack has %d objects, expected %d", len(intp.Stack), stackWant))
	}
	if len(intp.DSC) != len(want) {
		return fail("wrong-number-of-comments", fmt.Sprintf("expected %v, got %v", want, intp.DSC))
	}
	for i, w := range want {
		g := intp.DSC[i]
		if g.Key != w.Key {
			return fail("wrong-key", fmt.Sprintf("comment %d: expected %q, got %q (all: %v)", i, w, g, intp.DSC))
		}
		if g.Value != w.Value {
			cls := "wrong-value"
			if i == 0 && strings.Contains(body, "%%+") {
				cls = "wrong-continued-value"
			}
			return fail(cls, fmt.Sprintf("comment %d: expected %q, got %q (all: %v)", i, w, g, intp.DSC))
		}
	}
	out := dscPositions[pos]
	if strings.Contains(body, "%%+") {
		out += "/continued"
	}
	v := mc.Pass(out, true)
	if c.Render() {
		v.Render = prog + fmt.Sprintf(" -> %v", want)
	}
	return v
}

// ---------------------------------------------------------------------------
// buffer boundaries

// The scanner reads its input in blocks of 512 bytes.  What a text denotes
// must not depend on where it stands relative to those blocks: every snippet is
// read at offset 0 (this reading is what the other families check) and again
// behind p bytes of white space for every p around the first three block
// boundaries, through three kinds of reader.
var boundarySnippets = []string{
	"%%Title: first line\n%%+ second line\n{/a 1}\n",
	"%%A: x\r\n%%+ y\r\n%%+z\r\n{2}\r\n%%EOF\r\n",
	"%%K: v\r%%+ w\r{3}\r",
	"{(abc\\\n def\\051\\n) <48 65 6c> <~87cURD]i,\"Ebo80~> 16#FF 1.5e3 /name name}\n",
	"{(a\r\nb) (c\rd) (nested (parens) \\\\) (\\1\\12\\123\\1234)}\n",
	"{% comment\n 1 %another\r 2 %%NotDSC: mid-line\n 3}\n",
	"{<< /k 1 >> [ 1 2 ] -12345678901234567890 8#777 .5 -.5e-3 2147483648}\n",
	"{abc/def(x)<41>[]{}/}\n",
	"{(\\\r\nx\\\ry\\\nz) <~z!!~> <4> /a/b//c}\n",
}

type oneByte struct{ r io.Reader }

func (o oneByte) Read(p []byte) (int, error) {
	if len(p) == 0 {
		return 0, nil
	}
	return o.r.Read(p[:1])
}

func boundaryOffsets() []int {
	var out []int
	for _, b := range []int{512, 1024, 1536} {
		for p := b - 14; p <= b+3; p++ {
			out = append(out, p)
		}
	}
	return out
}

// idleReader delivers 1..7 bytes per productive call and nothing at all (0, nil) on every other call.
type idleReader struct {
	data  []byte
	calls int
}

func (r *idleReader) Read(p []byte) (int, error) {
	r.calls++
	if len(r.data) == 0 {
		return 0, io.EOF
	}
	if r.calls%2 == 0 || len(p) == 0 {
		return 0, nil
	}
	n := min(1+(r.calls/2)%7, len(p), len(r.data))
	copy(p, r.data[:n])
	r.data = r.data[n:]
	return n, nil
}

func boundaryObservation(text string, reader int) string {
	intp := postscript.NewInterpreter()
	var err error
	switch reader {
	case 0:
		err = intp.ExecuteString(text)
	case 1:
		err = intp.Execute(&dataWithEOF{data: []byte(text)})
	case 2:
		err = intp.Execute(oneByte{strings.NewReader(text)})
	default:
		// chunks of 1..7 bytes, every other call an idle read (0, nil), which io.Reader permits
		err = intp.Execute(&idleReader{data: []byte(text)})
	}
	return fmt.Sprintf("stack=%#v dsc=%#v err=%v", intp.Stack, intp.DSC, err)
}

func boundaryFamily(budget time.Duration) mc.Family {
	offs := boundaryOffsets()
	pads := []string{" ", "\n", "% pad\n"} // what the padding is made of; it always ends with a line end
	n := len(boundarySnippets) * len(offs) * len(pads)
	return mc.Family{Name: "buffer-boundaries", Items: n, Budget: budget,
		Rule: fmt.Sprintf("%d snippets (DSC comments with `%%%%+` continuations in LF/CRLF/CR form, strings with line continuations, escapes and CR LF pairs, hex and ASCII85 strings, comments, numbers in every notation, names and delimiters without white space) x placed behind p bytes of padding (blanks / line feeds / comment lines, ending in a line end) for every p in %d..%d, %d..%d, %d..%d x 4 readers (all at once, last bytes together with io.EOF, one byte per call, chunks of 1..7 bytes with an idle read (0, nil) between any two): objects, DSC comments and error must equal those of the snippet at offset 0; non-trivial = all", len(boundarySnippets), offs[0], offs[17], offs[18], offs[35], offs[36], offs[len(offs)-1]),
		Body: func(c *mc.Ctx, item int) mc.Verdict {
			sn := boundarySnippets[item%len(boundarySnippets)]
			p := offs[(item/len(boundarySnippets))%len(offs)]
			unit := pads[item/len(boundarySnippets)/len(offs)]
			pad := strings.Repeat(unit, p/len(unit)+1)[:p-1]
			if unit == "% pad\n" {
				pad = strings.Repeat(" ", (p-1)%len(unit)) + strings.Repeat(unit, (p-1)/len(unit))
			}
			pad += "\n"
			want := boundaryObservation(sn, 0)
			if strings.Contains(want, "err=<nil>") == false {
				return mc.Fail("C04:HARNESS:boundary-snippet-fails-at-offset-0", fmt.Sprintf("%q: %s", sn, want))
			}
			for reader := 0; reader < 4; reader++ {
				got := boundaryObservation(pad+sn, reader)
				c.Step()
				if got != want {
					v := mc.Fail("C04:buffer-boundary:reading-depends-on-position", fmt.Sprintf("snippet %q behind %d bytes of padding (%q...), reader kind %d: %s, at offset 0: %s", sn, p, unit, reader, got, want))
					v.Render = fmt.Sprintf("%q at offset %d", sn, p)
					return v
				}
			}
			return mc.Pass("same-reading", true)
		},
		Describe: func(item int) string {
			return fmt.Sprintf("%q at offset %d", boundarySnippets[item%len(boundarySnippets)], offs[(item/len(boundarySnippets))%len(offs)])
		},
		CrashKey: func(int) string { return "C04:crash:buffer-boundaries" },
	}
}

// ---------------------------------------------------------------------------
// octal escapes and what follows them

// octalFamily: `\d`, `\dd`, `\ddd` followed by every kind of next character:
// an escape takes at most three octal digits; 8 and 9 are not octal digits.
func octalFamily(budget time.Duration) mc.Family {
	followers := []string{"", "0", "1", "7", "8", "9", "a", "A", " ", "\\n", "\\7", "\\8", "(x)", "\n", "77", "89", "08"}
	var escapes []string
	for _, a := range "0137" {
		escapes = append(escapes, string(a))
		for _, b := range "057" {
			escapes = append(escapes, string(a)+string(b))
			for _, cc := range "0167" {
				escapes = append(escapes, string(a)+string(b)+string(cc))
			}
		}
	}
	// reference: PLRM 3.2.2 — \ddd with one to three octal digits; high-order overflow ignored
	decode := func(body string) []byte {
		var out []byte
		for i := 0; i < len(body); {
			ch := body[i]
			if ch != '\\' {
				if ch == '\r' {
					// (not generated)
				}
				out = append(out, ch)
				i++
				continue
			}
			i++
			if i >= len(body) {
				break
			}
			switch e := body[i]; {
			case e >= '0' && e <= '7':
				v, n := 0, 0
				for n < 3 && i < len(body) && body[i] >= '0' && body[i] <= '7' {
					v = v*8 + int(body[i]-'0')
					i++
					n++
				}
				out = append(out, byte(v))
			case e == 'n':
				out = append(out, '\n')
				i++
			default:
				out = append(out, e) // \8 -> 8: the backslash is ignored
				i++
			}
		}
		return out
	}
	n := len(escapes) * len(followers)
	return mc.Family{Name: "octal-escapes-and-followers", Items: n, Budget: budget,
		Rule: fmt.Sprintf("item = (octal escape of 1, 2 or 3 digits: %d forms) x (what follows inside the string: %q): the string must read as the escape's byte followed by the follower's bytes; an escape takes at most three octal digits, 8 and 9 end it; non-trivial = all", len(escapes), followers),
		Body: func(c *mc.Ctx, item int) mc.Verdict {
			body := "a\\" + escapes[item%len(escapes)] + followers[item/len(escapes)] + "z"
			want := decode(body)
			intp := postscript.NewInterpreter()
			err := intp.ExecuteString("(" + body + ") 7")
			c.Step()
			fail := func(detail string) mc.Verdict {
				v := mc.Fail("C04:string:octal-escape-and-follower", fmt.Sprintf("%s | program %q", detail, "("+body+") 7"))
				v.Render = fmt.Sprintf("(%s)", body)
				return v
			}
			if err != nil || len(intp.Stack) != 2 {
				return fail(fmt.Sprintf("error %v, %d objects on the stack", err, len(intp.Stack)))
			}
			got, ok := intp.Stack[0].(postscript.String)
			if !ok || !bytes.Equal([]byte(got), want) {
				return fail(fmt.Sprintf("read as %q, expected %q", intp.Stack[0], want))
			}
			return mc.Pass("octal-ok", true)
		},
		CrashKey: func(int) string { return "C04:crash:octal" },
	}
}

// ---------------------------------------------------------------------------
// DSC comments: mixed line ends, and around an eexec section

// mixedLinesFamily: three lines, each a number, a plain comment, a DSC comment
// or empty, each ended by LF, CR or CR LF independently, then a final DSC line:
// every DSC line stands at the start of a line and must be collected, in order.
func mixedLinesFamily(budget time.Duration) mc.Family {
	contents := []string{"1", "% plain", "%%K: v", "", "2 %%NotDSC: mid-line", "%%"}
	eols := []string{"\n", "\r", "\r\n"}
	nc, ne := len(contents), len(eols)
	n := nc * nc * nc * ne * ne * ne
	eexecForms := 2
	return mc.Family{Name: "dsc-mixed-line-ends", Items: n + eexecForms, Budget: budget,
		Rule: fmt.Sprintf("item = three lines, each one of %q, each ended by LF, CR or CR LF independently (%d texts), followed by `%%%%Last: z`; the DSC comments collected must be exactly the lines starting with %%%%, in order, and the numbers must be on the stack; plus %d programs with DSC comments before, inside and after an eexec section (hex, binary): each collected once, in order; non-trivial = all", contents, n, eexecForms),
		Body: func(c *mc.Ctx, item int) mc.Verdict {
			var text string
			var want []pstoken.DSC
			wantStack := 0
			if item >= n {
				binary := item-n == 1
				plain := []byte("/x 1 def\n%%Inside: i\nmark currentfile closefile\n")
				text = "%!PS\n%%Title: T\n%%Creator: C\ncurrentfile eexec\n"
				enc := eexecref.New().Encrypt(nil, append([]byte{0, 0, 0, 0}, plain...))
				if binary {
					text += string(enc) + "\n"
				} else {
					text += string(eexecref.Armour(enc, 0)) + "\n"
				}
				text += strings.Repeat("0", 64) + "\ncleartomark\n%%Trailer: t\n%%EOF\n"
				want = []pstoken.DSC{{Key: "Title", Value: "T"}, {Key: "Creator", Value: "C"}, {Key: "Inside", Value: "i"}, {Key: "Trailer", Value: "t"}, {Key: "EOF", Value: ""}}
			} else {
				var sb strings.Builder
				ci, ei := item%(nc*nc*nc), item/(nc*nc*nc)
				for l := 0; l < 3; l++ {
					ct := contents[ci%nc]
					ci /= nc
					sb.WriteString(ct)
					sb.WriteString(eols[ei%ne])
					ei /= ne
					switch {
					case ct == "%%":
						// a line of two percent signs names no key: nothing is recorded, and the next line is a line start
					case strings.HasPrefix(ct, "%%"):
						want = append(want, pstoken.DSC{Key: "K", Value: "v"})
					case ct == "1" || strings.HasPrefix(ct, "2"):
						wantStack++
					}
				}
				sb.WriteString("%%Last: z\n")
				want = append(want, pstoken.DSC{Key: "Last", Value: "z"})
				text = sb.String()
			}
			intp := postscript.NewInterpreter()
			err := intp.ExecuteString(text)
			c.Step()
			fail := func(class, detail string) mc.Verdict {
				v := mc.Fail("C04:dsc-lines:"+class, fmt.Sprintf("%s | program %q", detail, text))
				v.Render = fmt.Sprintf("%q", text)
				return v
			}
			if err != nil {
				return fail("execute-error", "Execute returned "+err.Error())
			}
			if item < n && len(intp.Stack) != wantStack {
				return fail("stack", fmt.Sprintf("%d objects on the stack, expected %d", len(intp.Stack), wantStack))
			}
			if len(intp.DSC) != len(want) {
				return fail("wrong-number-of-comments", fmt.Sprintf("expected %v, got %v", want, intp.DSC))
			}
			for i, w := range want {
				if intp.DSC[i].Key != w.Key || intp.DSC[i].Value != w.Value {
					return fail("wrong-comment", fmt.Sprintf("comment %d: expected %v, got %v (all: %v)", i, w, intp.DSC[i], intp.DSC))
				}
			}
			return mc.Pass("collected", true)
		},
		CrashKey: func(int) string { return "C04:crash:dsc-lines" },
	}
}

// ---------------------------------------------------------------------------
// serialiser round trip

func psStringBody(alpha []byte, maxLen int) (int, func(c *mc.Ctx, item int) mc.Verdict) {
	// item = index of the string in length-lexicographic order
	total := 0
	pow := 1
	for l := 0; l <= maxLen; l++ {
		total += pow
		pow *= len(alpha)
	}
	return total, func(c *mc.Ctx, item int) mc.Verdict {
		l, pow := 0, 1
		idx := item
		for idx >= pow {
			idx -= pow
			pow *= len(alpha)
			l++
		}
		content := make([]byte, l)
		for i := l - 1; i >= 0; i-- {
			content[i] = alpha[idx%len(alpha)]
			idx /= len(alpha)
		}
		return psStringRoundTrip(c, content)
	}
}

// psStringRoundTrip: String(content).PS() followed by ` 7` must read back as
// the identical string and 7.
func psStringRoundTrip(c *mc.Ctx, content []byte) mc.Verdict {
	{
		l := len(content)
		ps := postscript.String(content).PS()
		intp := postscript.NewInterpreter()
		err := intp.ExecuteString(ps + " 7")
		c.Step()
		r := fmt.Sprintf("String(%q).PS() = %q", content, ps)
		if len(r) > 400 {
			r = fmt.Sprintf("String(%d bytes, ending in %q).PS() = %d bytes ending in %q", l, content[max(0, l-12):], len(ps), ps[max(0, len(ps)-24):])
		}
		fail := func(class, detail string) mc.Verdict {
			v := mc.Fail("C04:serialise:string:"+class, detail+" | "+r)
			v.Render = r
			return v
		}
		if err != nil {
			return fail("does-not-read-back", fmt.Sprintf("Execute returned %v", err))
		}
		if len(intp.Stack) != 2 {
			return fail("does-not-read-back", fmt.Sprintf("expected the string and the integer 7 on the stack, found %d objects", len(intp.Stack)))
		}
		g, ok := intp.Stack[0].(postscript.String)
		if !ok || intp.Stack[1] != postscript.Integer(7) {
			return fail("does-not-read-back", fmt.Sprintf("stack holds %s, %s", describeGot(intp.Stack[0]), describeGot(intp.Stack[1])))
		}
		if !bytes.Equal(g, content) {
			return fail("reads-back-different", fmt.Sprintf("read back %q", []byte(g)))
		}
		v := mc.Pass(fmt.Sprintf("string/len-%d", l), l > 0)
		if c.Render() {
			v.Render = r
		}
		return v
	}
}

// longStringFamily: strings that are longer than anything a serialiser might
// treat specially (line folding, buffers of 64 / 128 / 256 / 1024 bytes), with a
// byte that needs escaping at every offset.
func longStringFamily(budget time.Duration) mc.Family {
	fillers := []string{"a", "\\", "()", "a\n", "\x80"}
	tails := []string{"", "\\", "(", ")", "\r", "\n", "()", "\\(", ")(", "\x00", "\xff", "\\\\", "\r\n", "\\n", "\t", "\\\n"}
	const maxN = 1100
	return mc.Family{
		Name: "serialise-long-strings", Items: maxN + 1, Budget: budget,
		Rule: fmt.Sprintf("item = n in 0..%d; choices: a filler of n bytes (repetitions of one of %d patterns: a letter, a backslash, a balanced pair of parentheses, letter + LF, a byte >= 0x80) x one of %d tails (nothing, backslash, either parenthesis, CR, LF, TAB, NUL, FF-byte and two-byte mixes) x an optional final letter: a byte that needs escaping at every offset 0..%d of the string; String.PS() followed by ` 7` must read back as the identical string and 7; non-trivial = non-empty string", maxN, len(fillers), len(tails), maxN),
		Body: func(c *mc.Ctx, item int) mc.Verdict {
			f := fillers[c.Choose(len(fillers))]
			t := tails[c.Choose(len(tails))]
			var content []byte
			for len(content) < item {
				content = append(content, f...)
			}
			content = content[:item]
			content = append(content, t...)
			if c.Choose(2) == 1 {
				content = append(content, 'b')
			}
			return psStringRoundTrip(c, content)
		},
		Describe: func(item int) string { return fmt.Sprintf("strings with a filler of %d bytes", item) },
	}
}

func regularBytes() []byte {
	var out []byte
	for b := 0; b < 256; b++ {
		// the library's own notion (Name.PS panics otherwise): every byte > 32
		// that is not a delimiter; this is exactly the PLRM's set for bytes > 32
		if b > 32 && pstoken.IsRegular(byte(b)) {
			out = append(out, byte(b))
		}
	}
	return out
}

func psNameBody() (int, func(c *mc.Ctx, item int) mc.Verdict) {
	reg := regularBytes()
	n := len(reg)
	return 1 + n + n*n, func(c *mc.Ctx, item int) mc.Verdict {
		var name []byte
		switch {
		case item == 0:
		case item <= n:
			name = []byte{reg[item-1]}
		default:
			k := item - 1 - n
			name = []byte{reg[k/n], reg[k%n]}
		}
		ps := postscript.Name(name).PS()
		intp := postscript.NewInterpreter()
		err := intp.ExecuteString(ps + " 7")
		c.Step()
		r := fmt.Sprintf("Name(%q).PS() = %q", name, ps)
		fail := func(class, detail string) mc.Verdict {
			v := mc.Fail("C04:serialise:name:"+class, detail+" | "+r)
			v.Render = r
			return v
		}
		if err != nil {
			return fail("does-not-read-back", fmt.Sprintf("Execute returned %v", err))
		}
		if len(intp.Stack) != 2 || intp.Stack[1] != postscript.Integer(7) {
			return fail("does-not-read-back", fmt.Sprintf("expected the name and the integer 7 on the stack, found %d objects", len(intp.Stack)))
		}
		g, ok := intp.Stack[0].(postscript.Name)
		if !ok {
			return fail("does-not-read-back", fmt.Sprintf("stack holds %s", describeGot(intp.Stack[0])))
		}
		if string(g) != string(name) {
			return fail("reads-back-different", fmt.Sprintf("read back %q", string(g)))
		}
		v := mc.Pass(fmt.Sprintf("name/len-%d", len(name)), len(name) > 0)
		if c.Render() {
			v.Render = r
		}
		return v
	}
}

// ---------------------------------------------------------------------------

func main() {
	mc.Main(mc.Program{
		Property: "C04",
		Assumptions: []string{
			"integer range = range of the library's Integer type (64 bit); larger decimal literals denote reals",
			"reals: nearest float64 or, if not exactly representable, one of its neighbours",
			"radix numbers generated only for bases 2..36, no leading zeros in the base, values 0..2^63-1",
			"DSC continuation lines are joined with one space (library's documented reading); values do not end in white space",
			"not generated: control bytes 1..31 other than white space, ASCII85 groups >= 2^32, reals beyond float64, //name, bare > or )",
		},
		TrustedBase: []string{"model/pstoken (spellings from PLRM 3.2; ground truth is the generated object sequence)", "math/big for exact decimal values"},
		Families: func(tier string) []mc.Family {
			thorough := tier == "thorough"
			budget := 45 * time.Second
			if thorough {
				budget = 10 * time.Minute
			}
			var fams []mc.Family

			all := allSpellings(false)
			fams = append(fams, mc.Family{Name: "tokens-1", Items: len(all), Body: singlesBody(all), Budget: budget,
				Rule: fmt.Sprintf("item = one of %d spellings of %d pool objects; choices: separator after `{` and before `}` from %d separators (SP TAB CR LF CRLF FF NUL, 7 comment forms incl. comments ended by a form feed, nothing where a delimiter allows); non-trivial = the library returned at least one object that is not an executable name", len(all), len(pool), len(seps))})

			prs := allSpellings(!thorough)
			sub := sepsFew
			if thorough {
				sub = sepsSome
			}
			fams = append(fams, mc.Family{Name: "tokens-2", Items: len(prs), Body: pairsBody(prs, allSepIdx), Budget: budget,
				Rule: fmt.Sprintf("item = first token, one of %d spellings (quick: up to 4 per object spanning the lexical forms, thorough: all); choices: second token (same set) x every legal separator of %d x {`{a b}`, `{ a b\\n}`}; non-trivial as above", len(prs), len(seps))})

			outer := outerPool(thorough)
			var tis []tripleItem
			for _, l := range outer {
				for _, m := range all {
					tis = append(tis, tripleItem{l, m})
				}
			}
			fams = append(fams, mc.Family{Name: "tokens-3", Items: len(tis), Body: triplesBody(tis, outer, sub), Budget: budget,
				Rule: fmt.Sprintf("item = (left object of %d in its first spelling, middle token: every one of %d spellings); choices: right object of %d in its first spelling x two separators from a set of %d (nothing only where legal); non-trivial as above", len(outer), len(all), len(outer), len(sub))})

			li := literalItems(thorough)
			fams = append(fams, mc.Family{Name: "string-literal", Items: len(li), Body: literalBody(li), Budget: budget,
				Rule: "item = string content: every single byte (all forms + line continuations \\LF \\CR \\CRLF before/after), two bytes (quick: each byte x 18 representatives in both orders; thorough: all 65,536) with each byte raw / named escape / ignored backslash / \\d \\dd \\ddd / overflowing \\4dd-\\7dd where legal (short octal not before an octal digit, raw CR not before raw LF, raw parentheses balanced), 100 two-byte contents with continuations at every position, all contents of length 3..4 (thorough 5) over ( ) a \\ LF with raw/escaped parentheses and LF as LF/CR/CRLF/\\n; choice: the spelling; text is `{(...)7}`; non-trivial as above"})

			hi := hexItems(thorough)
			fams = append(fams, mc.Family{Name: "string-hex", Items: len(hi), Body: hexBody(hi), Budget: budget,
				Rule: "item = content (all single bytes; 2-3 bytes over a small alphabet); choices: 5 upper/lower-case patterns x final 0 digit dropped or not x white space (7 kinds; 3 kinds for a second insertion) at no, one or two positions including before `>`; non-trivial as above"})

			ai := a85Items(thorough)
			fams = append(fams, mc.Family{Name: "string-ascii85", Items: len(ai), Body: a85Body(ai), Budget: budget,
				Rule: "item = content (all single bytes; pairs over 6 representatives, thorough all 65,536; lengths 3-6 over {00,ff,'a'}, 7-9 over {00,'a'}: final groups of 1-4 bytes); choices: zero groups as z or !!!!! x white space (7 kinds) at no or one position; non-trivial as above"})

			nd := len(dscPositions) * len(dscKeys) * (len(dscValues) + 2) * len(dscColons)
			fams = append(fams, mc.Family{Name: "dsc", Items: nd, Body: dscBody(thorough), Budget: budget,
				Rule: "item = (position of 6: first line, after a code line, after a plain comment, after a blank line, between the tokens of a procedure, in a second Execute) x key of 2 x value of 4 (or no colon, or empty) x colon/blank form of 4; choices: line end LF/CR/CRLF of the comment line (thorough: independently of the preceding line), none / one `%%+` continuation line (3 texts x 3 blank forms x 3 line ends) / two continuation lines (2 blank forms x 3 x 3 line ends), an optional second comment (4 kinds, two of them ended by a form feed with code following on the same line), following code / plain comment / end of file with or without final line end / a program that ends by executing `stop` (3 forms); observed in Interpreter.DSC in order; non-trivial = all"})

			fams = append(fams, boundaryFamily(budget))
			fams = append(fams, mixedLinesFamily(budget))
			fams = append(fams, octalFamily(budget))

			n1, b1 := psStringBody(func() []byte {
				a := make([]byte, 256)
				for i := range a {
					a[i] = byte(i)
				}
				return a
			}(), 2)
			fams = append(fams, mc.Family{Name: "serialise-string-all-bytes", Items: n1, Body: b1, Budget: budget,
				Rule: "item = every byte string of length <= 2; String.PS() followed by ` 7` is executed and must leave the identical string and 7; non-trivial = non-empty string"})
			n2, b2 := psStringBody([]byte{'(', ')', '\\', '\r', '\n', 'a'}, 5)
			fams = append(fams, mc.Family{Name: "serialise-string-special", Items: n2, Body: b2, Budget: budget,
				Rule: "item = every byte string of length <= 5 over ( ) \\ CR LF a; as above"})
			fams = append(fams, longStringFamily(budget))
			n3, b3 := psNameBody()
			fams = append(fams, mc.Family{Name: "serialise-name", Items: n3, Body: b3, Budget: budget,
				Rule: "item = every name of length <= 2 over the 213 regular bytes > 32; Name.PS() followed by ` 7` must read back as the identical literal name; non-trivial = non-empty name"})
			describe := map[string]func(int) string{
				"tokens-1": func(i int) string { r := all[i]; return fmt.Sprintf("token %q alone", pool[r.e].sp[r.s].Text) },
				"tokens-2": func(i int) string {
					r := prs[i]
					return fmt.Sprintf("pairs starting with token %q", pool[r.e].sp[r.s].Text)
				},
				"tokens-3": func(i int) string {
					t := tis[i]
					return fmt.Sprintf("triples %q %q *", pool[t.left].sp[0].Text, pool[t.mid.e].sp[t.mid.s].Text)
				},
				"string-literal": func(i int) string { return fmt.Sprintf("literal spellings of %q", li[i].content) },
				"string-hex":     func(i int) string { return fmt.Sprintf("hex spellings of %q", hi[i].content) },
				"string-ascii85": func(i int) string { return fmt.Sprintf("ASCII85 spellings of %q", ai[i].content) },
			}
			for i := range fams {
				name := fams[i].Name
				if d, ok := describe[name]; ok {
					fams[i].Describe = d
				} else {
					fams[i].Describe = func(item int) string { return fmt.Sprintf("%s item %d", name, item) }
				}
				fams[i].CrashKey = func(int) string { return "C04:crash:" + name }
			}
			return fams
		},
	})
}
