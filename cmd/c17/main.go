// C17 — output and results are deterministic.
//
// The nondeterminism is OWNED: the check is built with an overlay (generated
// from /repo's working tree by tools/instrument) in which every range over a
// map and every x/exp/maps.Keys/Values call of the library iterates in an order
// chosen by the explorer.  Default = sorted keys; any other order costs one
// deviation; all n! orders for n <= 4 keys, rotations and adjacent swaps
// beyond.  Exhaustive with <= 2 (thorough 3) deviating iterations per
// execution.  All n! orders are a superset of what Go's runtime can produce.
//
// Workloads: fonts with 1..4 glyphs written in every format and WritePDF;
// metrics with 1..3 ligatures on one glyph and several glyphs; CMap files
// defining 1..3 CMaps; type1.Read of every container; all query methods; a
// dictionary-copy program.  Oracle: the observation (output bytes / deep dump)
// is identical in every execution.
package main

import (
	"bytes"
	"crypto/sha1"
	"fmt"
	"math"
	"os"
	"os/exec"
	"sort"
	"strconv"
	"strings"
	"time"

	"seehuhn.de/go/geom/rect"
	"seehuhn.de/go/postscript"
	"seehuhn.de/go/postscript/afm"
	"seehuhn.de/go/postscript/type1"
	"seehuhn.de/go/postscript/zzverifrt"

	"verif/mc"
	"verif/model/corpus"
	"verif/model/observe"
	"verif/model/pscmp"
	"verif/model/t1raw"
)

type workload struct {
	name string
	run  func() string
}

func fontWith(n int) *type1.Font {
	f := corpus.SampleFont()
	names := []string{".notdef", "space", "A", "B", "odd.name_1"}
	keep := map[string]bool{}
	for _, nm := range names[:n] {
		keep[nm] = true
	}
	for nm := range f.Glyphs {
		if !keep[nm] {
			delete(f.Glyphs, nm)
		}
	}
	for i, nm := range f.Encoding {
		if !keep[nm] {
			f.Encoding[i] = ".notdef"
		}
	}
	return f
}

func metricsWith(nLig, nGlyph int) *afm.Metrics {
	m := corpus.SampleMetrics()
	ligs := [][2]string{{"i", "fi"}, {"l", "fl"}, {"f", "ff"}}
	m.Glyphs["f"].Ligatures = map[string]string{}
	for _, l := range ligs[:nLig] {
		m.Glyphs["f"].Ligatures[l[0]] = l[1]
	}
	order := []string{"f", "i", "space", ".notdef", "fi"}
	for _, nm := range order[nGlyph:] {
		delete(m.Glyphs, nm)
		for i, e := range m.Encoding {
			if e == nm {
				m.Encoding[i] = ".notdef"
			}
		}
	}
	return m
}

func cmapFile(n int) []byte {
	var sb strings.Builder
	for _, name := range []string{"Zeta", "Alpha", "Mid"}[:n] {
		sb.WriteString("/CIDInit /ProcSet findresource begin\n12 dict begin\nbegincmap\n/CMapName /" + name + " def\n/CMapType 1 def\n1 begincodespacerange <00> <ff> endcodespacerange\n2 begincidchar <41> 1 <42> 2 endcidchar\nendcmap\nCMapName currentdict /CMap defineresource pop\nend\nend\n")
	}
	return []byte(sb.String())
}

var opTable = pscmp.NewOpTable()

var clockJumps = []time.Duration{0, 3 * time.Second, 1000 * time.Hour}

func workloads() []workload {
	var ws []workload
	for n := 1; n <= 4; n++ {
		n := n
		for _, format := range corpus.Formats {
			format := format
			ws = append(ws, workload{fmt.Sprintf("Font.Write(%d glyphs, %s)", n, corpus.FormatName(format)), func() string {
				var b bytes.Buffer
				err := fontWith(n).Write(&b, &type1.WriterOptions{Format: format})
				return fmt.Sprintf("%q err=%v", b.Bytes(), err)
			}})
		}
		ws = append(ws, workload{fmt.Sprintf("Font.WritePDF(%d glyphs)", n), func() string {
			var b bytes.Buffer
			l1, l2, err := fontWith(n).WritePDF(&b)
			return fmt.Sprintf("%q %d %d err=%v", b.Bytes(), l1, l2, err)
		}})
		ws = append(ws, workload{fmt.Sprintf("Font queries(%d glyphs)", n), func() string {
			f := fontWith(n)
			var sb strings.Builder
			fmt.Fprintf(&sb, "GlyphList=%q NumGlyphs=%d FontBBox=%v FontBBoxPDF=%v Widths=%s", f.GlyphList(), f.NumGlyphs(), f.FontBBox(), f.FontBBoxPDF(), observe.Dump(f.WidthsMapPDF()))
			for _, g := range f.GlyphList() {
				fmt.Fprintf(&sb, " %s:%v:%v", g, f.GlyphBBoxPDF(g), f.GlyphWidthPDF(g))
			}
			return sb.String()
		}})
		ws = append(ws, workload{fmt.Sprintf("Font queries(%d glyphs, no encoding)", n), func() string {
			f := fontWith(n)
			f.Encoding = nil
			return fmt.Sprintf("GlyphList=%q NumGlyphs=%d FontBBoxPDF=%v Widths=%s", f.GlyphList(), f.NumGlyphs(), f.FontBBoxPDF(), observe.Dump(f.WidthsMapPDF()))
		}})
		ws = append(ws, workload{fmt.Sprintf("Font.Write(%d glyphs, no encoding)", n), func() string {
			f := fontWith(n)
			f.Encoding = nil
			var b bytes.Buffer
			err := f.Write(&b, nil)
			return fmt.Sprintf("%q err=%v", b.Bytes(), err)
		}})
		ws = append(ws, workload{fmt.Sprintf("Font write+read(%d glyphs)", n), func() string {
			var b bytes.Buffer
			if err := fontWith(n).Write(&b, nil); err != nil {
				return err.Error()
			}
			return observe.Run("font", bytes.NewReader(b.Bytes())).Obs
		}})
	}
	for nl := 1; nl <= 3; nl++ {
		for ng := 1; ng <= 5; ng += 2 {
			nl, ng := nl, ng
			ws = append(ws, workload{fmt.Sprintf("Metrics.Write(%d ligatures, %d glyphs)", nl, ng), func() string {
				var b bytes.Buffer
				err := metricsWith(nl, ng).Write(&b)
				return fmt.Sprintf("%q err=%v", b.Bytes(), err)
			}})
		}
	}
	ws = append(ws, workload{"Metrics queries", func() string {
		m := metricsWith(3, 5)
		return fmt.Sprintf("GlyphList=%q NumGlyphs=%d FontBBoxPDF=%v", m.GlyphList(), m.NumGlyphs(), m.FontBBoxPDF())
	}})
	ws = append(ws, workload{"Metrics queries (no encoding)", func() string {
		m := metricsWith(3, 5)
		for i := range m.Encoding {
			m.Encoding[i] = ".notdef"
		}
		var b bytes.Buffer
		err := m.Write(&b)
		return fmt.Sprintf("GlyphList=%q NumGlyphs=%d FontBBoxPDF=%v written=%q err=%v", m.GlyphList(), m.NumGlyphs(), m.FontBBoxPDF(), b.Bytes(), err)
	}})
	ws = append(ws, workload{"Metrics write+read", func() string {
		var b bytes.Buffer
		if err := metricsWith(3, 5).Write(&b); err != nil {
			return err.Error()
		}
		return observe.Run("afm", bytes.NewReader(b.Bytes())).Obs
	}})
	for n := 1; n <= 3; n++ {
		n := n
		ws = append(ws, workload{fmt.Sprintf("ReadCMap(%d CMaps in file)", n), func() string {
			return observe.Run("cmap", bytes.NewReader(cmapFile(n))).Obs
		}})
	}
	for _, in := range append(corpus.Fonts(), corpus.FontsT1gen()...) {
		in := in
		ws = append(ws, workload{"type1.Read(" + in.Name + ")", func() string {
			return observe.Run("font", bytes.NewReader(in.Data)).Obs
		}})
	}
	// a font whose composite glyphs are built from other composites: the order
	// in which glyphs are decoded/expanded must not matter
	ws = append(ws, workload{"type1.Read(nested seac chain)", func() string {
		return observe.Run("font", bytes.NewReader(nestedSeacFont())).Obs
	}})
	// dictionaries whose keys differ only in the case of their letters: whichever of
	// them the reader uses, it is the same one every time
	for k, info := range []string{
		"8 dict dup begin /Version (002.000) def /VERSION (001.001) def /vERSION (003) def /Notice (n1) def /NOTICE (n2) def /fullname (a) def /FULLNAME (b) def /weight (w) def end",
		"9 dict dup begin /version () def /Version (002.000) def /VERSION (001.001) def /FullName () def /FULLNAME (b) def /Fullname (c) def /FAMILYNAME (x) def /Familyname (y) def /isfixedpitch true def end",
	} {
		info := info
		ws = append(ws, workload{fmt.Sprintf("type1.Read(keys that differ only in case, %d)", k+1), func() string {
			data := t1raw.Build(t1raw.FontSpec{EncLenIV: 4, FontInfo: info,
				Private: "/bluevalues [1 2] def /BLUEVALUES [3 4] def /Bluevalues [5 6] def /stdhw [10] def /STDHW [20] def /forcebold true def /FORCEBOLD false def\n",
				Top:     "/fonttype 1 def /FONTTYPE 1 def /painttype 2 def /PAINTTYPE 0 def /fontbbox [1 1 2 2] def /FONTBBOX [0 0 9 9] def\n",
				Glyphs:  map[string][]byte{".notdef": {139, 248, 136, 13, 14}, "B": {139, 248, 136, 13, 14}},
				Order:   []string{".notdef", "B"}})
			return observe.Run("font", bytes.NewReader(data)).Obs
		}})
	}
	// several fonts in one file: whatever Read makes of it, it must not depend on
	// the order of the font directory
	for _, names := range [][]string{{"One", "Two"}, {"Two", "One", "Mid"}, {"Same", "Same"}} {
		names := names
		for _, format := range []type1.FileFormat{type1.FormatNoEExec, type1.FormatPFA} {
			format := format
			ws = append(ws, workload{fmt.Sprintf("type1.Read(%d fonts %v in one file, %s)", len(names), names, corpus.FormatName(format)), func() string {
				var b bytes.Buffer
				for i, nm := range names {
					f := fontWith(2 + i)
					f.FontName = nm
					f.FullName = nm
					if g := f.Glyphs["space"]; g != nil {
						g.WidthX = float64(100 * (i + 1))
					}
					if err := f.Write(&b, &type1.WriterOptions{Format: format}); err != nil {
						return err.Error()
					}
				}
				return observe.Run("font", bytes.NewReader(b.Bytes())).Obs
			}})
		}
	}
	// blank glyphs (all-zero box) next to glyphs whose boxes do not cover the origin
	for _, shift := range [][2]float64{{40, 10}, {-700, -800}, {40, -800}} {
		shift := shift
		ws = append(ws, workload{fmt.Sprintf("Metrics.Write(blank glyphs, boxes shifted by %v)", shift), func() string {
			m := metricsWith(2, 5)
			for nm, g := range m.Glyphs {
				if nm == "space" || nm == ".notdef" {
					g.BBox = rect.Rect{}
					continue
				}
				w, h := g.BBox.URx-g.BBox.LLx, g.BBox.URy-g.BBox.LLy
				if w <= 0 {
					w = 100
				}
				if h <= 0 {
					h = 100
				}
				g.BBox = rect.Rect{LLx: shift[0], LLy: shift[1], URx: shift[0] + w, URy: shift[1] + h}
			}
			var b bytes.Buffer
			err := m.Write(&b)
			return fmt.Sprintf("FontBBoxPDF=%v written=%q err=%v", m.FontBBoxPDF(), b.Bytes(), err)
		}})
	}
	// boxes that touch zero from both sides: +0 and -0 are different outputs
	ws = append(ws, workload{"Metrics.Write(boxes with negative and positive zeros)", func() string {
		m := metricsWith(2, 5)
		negZero := math.Copysign(0, -1)
		k := 0
		for _, nm := range []string{"f", "i", "space", ".notdef", "fi"} {
			g := m.Glyphs[nm]
			if g == nil {
				continue
			}
			z := []float64{negZero, 0}[k%2]
			g.BBox = rect.Rect{LLx: z, LLy: -z, URx: 500 + float64(k), URy: 700}
			k++
		}
		var b bytes.Buffer
		err := m.Write(&b)
		return fmt.Sprintf("FontBBoxPDF=%v written=%q err=%v", m.FontBBoxPDF(), b.Bytes(), err)
	}})
	ws = append(ws, workload{"Font boxes and Font.Write(outlines touching zero from both sides)", func() string {
		f := fontWith(4)
		negZero := math.Copysign(0, -1)
		for k, nm := range []string{"A", "B", "space", ".notdef"} {
			z := []float64{negZero, 0}[k%2]
			g := f.NewGlyph(nm, 500)
			g.MoveTo(z, -z)
			g.LineTo(100+float64(k), -z)
			g.LineTo(100+float64(k), 200)
			g.ClosePath()
		}
		var b bytes.Buffer
		err := f.Write(&b, &type1.WriterOptions{Format: type1.FormatNoEExec})
		return fmt.Sprintf("FontBBox=%v FontBBoxPDF=%v written=%q err=%v", f.FontBBox(), f.FontBBoxPDF(), b.Bytes(), err)
	}})
	ws = append(ws, workload{"afm write+read(boxes written as -0 and 0)", func() string {
		text := "StartFontMetrics 4.1\nFontName Z\nFullName Z R\nStartCharMetrics 3\nC 65 ; WX 500 ; N A ; B -0 -0 400 700 ;\nC 66 ; WX 500 ; N B ; B 0 0 500 600 ;\nC 67 ; WX 500 ; N C ; B -0 0 450 650 ;\nEndCharMetrics\nEndFontMetrics\n"
		m, err := afm.Read(strings.NewReader(text))
		if err != nil {
			return err.Error()
		}
		var b bytes.Buffer
		err = m.Write(&b)
		return fmt.Sprintf("%q err=%v", b.Bytes(), err)
	}})
	for _, shift := range [][2]float64{{40, 10}, {-700, -800}} {
		shift := shift
		ws = append(ws, workload{fmt.Sprintf("Font boxes(blank glyphs, outlines shifted by %v)", shift), func() string {
			f := fontWith(4)
			for _, nm := range []string{"A", "B"} {
				g := f.NewGlyph(nm, 500)
				g.MoveTo(shift[0], shift[1])
				g.LineTo(shift[0]+100, shift[1])
				g.LineTo(shift[0]+100, shift[1]+200)
				g.ClosePath()
			}
			for _, nm := range []string{".notdef", "space"} {
				f.NewGlyph(nm, 250)
			}
			var b bytes.Buffer
			err := f.Write(&b, nil)
			return fmt.Sprintf("FontBBox=%v FontBBoxPDF=%v written=%q err=%v", f.FontBBox(), f.FontBBoxPDF(), b.Bytes(), err)
		}})
	}
	// glyph names that are not regular PostScript names, next to the regular names
	// they are commonly rewritten to: whatever the writer does with them (an error,
	// today), it does the same every time
	for _, pair := range [][2]string{{"one half", "one_half"}, {"a(b", "a_b"}, {"x/y", "x_y"}, {"tab\there", "tab_here"}, {"per%cent", "per_cent"}} {
		pair := pair
		for _, format := range corpus.Formats {
			format := format
			ws = append(ws, workload{fmt.Sprintf("Font.Write(glyphs %q and %q, %s)", pair[0], pair[1], corpus.FormatName(format)), func() string {
				f := fontWith(2)
				for k, nm := range pair {
					g := f.NewGlyph(nm, float64(300+100*k))
					g.MoveTo(float64(10*k), 0)
					g.LineTo(float64(100+50*k), 0)
					g.LineTo(50, float64(200+100*k))
					g.ClosePath()
				}
				var b bytes.Buffer
				err := f.Write(&b, &type1.WriterOptions{Format: format})
				return fmt.Sprintf("%q err=%v", b.Bytes(), err)
			}})
		}
	}
	// a font without .notdef and without space whose advance widths are fractions
	// (whatever the reader derives from all glyphs together must not depend on
	// the order in which it meets them)
	ws = append(ws, workload{"type1.Read(no .notdef, no space, fractional widths)", func() string {
		n := t1raw.Num
		cat := func(parts ...[]byte) []byte {
			var b []byte
			for _, p := range parts {
				b = append(b, p...)
			}
			return b
		}
		glyph := func(w10 int32) []byte {
			return cat(n(0), n(w10), n(10), []byte{12, 12}, []byte{13}, n(10), n(0), []byte{21}, n(100), []byte{6}, n(200), []byte{7}, []byte{9, 14})
		}
		enc := "/Encoding 256 array 0 1 255 {1 index exch /.notdef put} for dup 65 /A put dup 66 /B put dup 67 /C put dup 68 /D put dup 69 /E put def\n"
		data := t1raw.Build(t1raw.FontSpec{EncLenIV: 4, Top: enc,
			Glyphs: map[string][]byte{"A": glyph(2001), "B": glyph(2002), "C": glyph(2003), "D": glyph(2014), "E": glyph(7)},
			Order:  []string{"C", "A", "E", "D", "B"}})
		return observe.Run("font", bytes.NewReader(data)).Obs
	}})
	// two glyph names at one character code, the same glyph at two codes
	ws = append(ws, workload{"afm.Read(two names at one code, one name at two codes)", func() string {
		text := "StartFontMetrics 4.1\nFontName Z\nFullName Z R\nStartCharMetrics 5\nC 45 ; WX 300 ; N hyphen ; B 0 0 300 100 ;\nC 45 ; WX 310 ; N sfthyphen ; B 0 0 310 100 ;\nC 65 ; WX 500 ; N A ; B 0 0 500 700 ;\nC 66 ; WX 500 ; N A ; B 0 0 400 600 ;\nC 45 ; WX 320 ; N minus ; B 0 0 320 100 ;\nEndCharMetrics\nEndFontMetrics\n"
		m, err := afm.Read(strings.NewReader(text))
		if err != nil {
			return err.Error()
		}
		var b bytes.Buffer
		err = m.Write(&b)
		return observe.Dump(m) + fmt.Sprintf(" written=%q err=%v", b.Bytes(), err)
	}})
	ws = append(ws, workload{"ReadCMap(3 CMaps, one with the empty name)", func() string {
		var sb strings.Builder
		for _, name := range []string{"Beta", "", "Alpha"} {
			sb.WriteString("/CIDInit /ProcSet findresource begin\n12 dict begin\nbegincmap\n/CMapName /" + name + " def\n/CMapType 1 def\n1 begincodespacerange <00> <ff> endcodespacerange\n1 begincidchar <41> " + fmt.Sprint(len(name)) + " endcidchar\nendcmap\nCMapName currentdict /CMap defineresource pop\nend\nend\n")
		}
		return observe.Run("cmap", strings.NewReader(sb.String())).Obs
	}})
	ws = append(ws, workload{"dictionary copy program", func() string {
		intp := postscript.NewInterpreter()
		err := intp.ExecuteString("/d 5 dict def d /a 1 put d /b 2 put d /c (x) put d 5 dict copy /e exch def " +
			"/g d length dict def d {1 index /b ne {g 3 1 roll put} {pop pop} ifelse} forall g length")
		return pscmp.Canon(opTable, intp) + fmt.Sprint(" err=", err)
	}})
	ws = append(ws, workload{"ReadCMap(60 blocks of 100 mappings)", func() string {
		var sb strings.Builder
		sb.WriteString("/CIDInit /ProcSet findresource begin\n12 dict begin\nbegincmap\n/CMapName /Big def\n/CMapType 1 def\n1 begincodespacerange <0000> <ffff> endcodespacerange\n")
		for b := 0; b < 60; b++ {
			sb.WriteString("100 begincidchar\n")
			for i := 0; i < 100; i++ {
				fmt.Fprintf(&sb, "<%04x> %d\n", b*100+i, b*100+i)
			}
			sb.WriteString("endcidchar\n")
		}
		sb.WriteString("endcmap\nCMapName currentdict /CMap defineresource pop\nend\nend\n")
		o := observe.Run("cmap", strings.NewReader(sb.String())).Obs
		return fmt.Sprintf("%d bytes, sum %x", len(o), sha1.Sum([]byte(o)))
	}})
	// values the writers cannot express, several faults at once: whatever is reported
	// (an error naming one of them, or bytes) is the same every time
	ws = append(ws, workload{"Metrics.Write(several names an AFM file cannot hold)", func() string {
		m := metricsWith(2, 3)
		for i, nm := range []string{"a b", "c;d", "", "e\tf", "g\nh", "i j k"} {
			m.Glyphs[nm] = &afm.GlyphInfo{WidthX: float64(100 + i), Ligatures: map[string]string{"x y": "z", "p;q": "r s", "": ""}}
		}
		var b bytes.Buffer
		err := m.Write(&b)
		return fmt.Sprintf("%q err=%v", b.Bytes(), err)
	}})
	for _, format := range corpus.Formats {
		format := format
		ws = append(ws, workload{"Font.Write(several glyph names that cannot be written, " + corpus.FormatName(format) + ")", func() string {
			f := fontWith(2)
			for i, nm := range []string{"bad name (", "x y", "", "a/b", "c%d", "e\nf", "(g)"} {
				f.Glyphs[nm] = &type1.Glyph{WidthX: float64(100 + i)}
			}
			var b bytes.Buffer
			err := f.Write(&b, &type1.WriterOptions{Format: format})
			return fmt.Sprintf("%x err=%v", sha1.Sum(b.Bytes()), err)
		}})
	}
	// several CMaps in one file that build on each other through usecmap (chains and a cycle)
	for _, chain := range [][][2]string{
		{{"A", ""}, {"M", "A"}, {"Z", "M"}},
		{{"Z", ""}, {"M", "Z"}, {"A", "M"}},
		{{"B", "D"}, {"C", "B"}, {"D", "C"}, {"A", "D"}},
		{{"Q", ""}, {"R", "Q"}, {"S", "R"}, {"T", "S"}, {"P", "T"}},
	} {
		chain := chain
		ws = append(ws, workload{fmt.Sprintf("ReadCMap(CMaps linked by usecmap: %v)", chain), func() string {
			var sb strings.Builder
			for i, c := range chain {
				sb.WriteString("/CIDInit /ProcSet findresource begin\n12 dict begin\nbegincmap\n")
				if c[1] != "" {
					sb.WriteString("/" + c[1] + " usecmap\n")
				}
				fmt.Fprintf(&sb, "/CMapName /%s def\n/CMapType 1 def\n1 begincodespacerange <00> <ff> endcodespacerange\n1 begincidchar <%02x> %d endcidchar\nendcmap\nCMapName currentdict /CMap defineresource pop\nend\nend\n", c[0], 0x41+i, i)
			}
			return observe.Run("cmap", strings.NewReader(sb.String())).Obs
		}})
	}
	// glyph names that a "natural" or case-insensitive comparison would call equal: the
	// order of the unencoded glyphs must still be a total one
	tieNames := []string{"a1", "a01", "a001", "b", "b0", "b00", "x10", "x9", "x09", "A1", "a1.alt", "ǆ", "Ǆ", "n18446744073709551616", "n018446744073709551616"}
	ws = append(ws, workload{"Font queries(names that differ in the spelling of a trailing number)", func() string {
		f := fontWith(1)
		f.Encoding = nil
		for i, nm := range tieNames {
			f.Glyphs[nm] = &type1.Glyph{WidthX: float64(300 + i)}
		}
		var b bytes.Buffer
		err := f.Write(&b, &type1.WriterOptions{Format: type1.FormatNoEExec})
		return fmt.Sprintf("GlyphList=%q NumGlyphs=%d written=%x err=%v", f.GlyphList(), f.NumGlyphs(), sha1.Sum(b.Bytes()), err)
	}})
	ws = append(ws, workload{"Metrics queries(names that differ in the spelling of a trailing number)", func() string {
		m := metricsWith(1, 1)
		for i, nm := range tieNames {
			m.Glyphs[nm] = &afm.GlyphInfo{WidthX: float64(300 + i)}
		}
		var b bytes.Buffer
		err := m.Write(&b)
		return fmt.Sprintf("GlyphList=%q NumGlyphs=%d written=%q err=%v", m.GlyphList(), m.NumGlyphs(), b.Bytes(), err)
	}})
	// programs whose result depends on the order in which forall visits a dictionary
	ws = append(ws, workload{"forall over a dictionary, left after the first entry", func() string {
		intp := postscript.NewInterpreter()
		err := intp.ExecuteString("<< /a 1 /b 2 /c 3 /d 4 >> { pop exit } forall  0 << /p 1 /q 2 /r 3 >> { exch pop exch 10 mul add } forall")
		return pscmp.Canon(opTable, intp) + fmt.Sprint(" err=", err)
	}})
	// an operator that walks a dictionary and is stopped half-way by an error which the
	// program's own handler swallows: what has been done by then must not depend on the order
	ws = append(ws, workload{"copy of a dictionary into one of 65535 entries, errors swallowed by the program", func() string {
		// (the language has no operator that makes a name from a number: the entries are spelt out)
		var sb strings.Builder
		sb.WriteString("/d 65535 dict def d begin\n")
		for i := 0; i < 65535; i++ {
			fmt.Fprintf(&sb, "/k%d 0 def\n", i)
		}
		sb.WriteString("end errordict /dictfull { } put errordict /limitcheck { } put\n" +
			"<< /x1 1 /x2 2 /x3 3 >> d copy count { pop } repeat /res [ d /x1 known d /x2 known d /x3 known d length ] def\n")
		intp := postscript.NewInterpreter()
		err := intp.ExecuteString(sb.String())
		return fmt.Sprint(intp.UserDict["res"], " err=", err)
	}})
	ws = append(ws, workload{"ReadCMap(name and mappings chosen by forall over a dictionary)", func() string {
		text := "/CIDInit /ProcSet findresource begin\n12 dict begin\nbegincmap\n/CMapName << /Gamma 1 /Alpha 2 /Beta 3 >> { pop exit } forall def\n/CMapType 1 def\n" +
			"1 begincodespacerange <00> <ff> endcodespacerange\n3 begincidchar 0 << /x <41> /y <42> /z <43> >> { exch pop exch 1 add dup } forall pop endcidchar\nendcmap\nCMapName currentdict /CMap defineresource pop\nend\nend\n"
		return observe.Run("cmap", strings.NewReader(text)).Obs
	}})
	return ws
}

func nestedSeacFont() []byte {
	n := t1raw.Num
	cat := func(parts ...[]byte) []byte {
		var b []byte
		for _, p := range parts {
			b = append(b, p...)
		}
		return b
	}
	outline := func(x int32) []byte {
		return cat(n(0), n(500), []byte{13}, n(x), n(0), []byte{21}, n(100), []byte{6}, n(200), []byte{7}, []byte{9, 14})
	}
	seac := func(b, a int32) []byte {
		return cat(n(0), n(500), []byte{13}, n(0), n(10), n(300), n(b), n(a), []byte{12, 6})
	}
	enc := "/Encoding 256 array 0 1 255 {1 index exch /.notdef put} for dup 65 /A put dup 194 /acute put dup 1 /Aacute put dup 2 /Aacute2 put dup 3 /Aacute3 put def\n"
	return t1raw.Build(t1raw.FontSpec{EncLenIV: 4, Top: enc,
		Glyphs: map[string][]byte{".notdef": outline(0), "A": outline(10), "acute": outline(50), "Aacute": seac(65, 194), "Aacute2": seac(1, 194), "Aacute3": seac(2, 194), "zlast": seac(3, 194), "Bfirst": seac(3, 194)},
		Order:  []string{".notdef", "zlast", "Aacute3", "A", "Aacute2", "acute", "Aacute", "Bfirst"}})
}

var factorial = []int{1, 1, 2, 6, 24}

// nthPerm returns the k-th permutation of 0..n-1 in lexicographic order.
func nthPerm(n, k int) []int {
	items := make([]int, n)
	for i := range items {
		items[i] = i
	}
	perm := make([]int, 0, n)
	for i := n; i >= 1; i-- {
		f := factorial[i-1]
		idx := k / f
		k %= f
		perm = append(perm, items[idx])
		items = append(items[:idx], items[idx+1:]...)
	}
	return perm
}

func orderChoice(c *mc.Ctx, n int) []int {
	if n <= 4 {
		return nthPerm(n, c.Deviate(factorial[n]))
	}
	// rotations and adjacent swaps
	d := c.Deviate(1 + (n - 1) + (n - 1))
	perm := make([]int, n)
	for i := range perm {
		perm[i] = i
	}
	switch {
	case d == 0:
	case d < n:
		for i := range perm {
			perm[i] = (i + d) % n
		}
	default:
		j := d - n
		perm[j], perm[j+1] = perm[j+1], perm[j]
	}
	return perm
}

var refs = map[int]string{}

// ---------------------------------------------------------------------------
// repeatability across histories

// "Writing the same font twice — in one process — produces byte-identical
// output, reading the same bytes twice equal results": whatever the process did
// in between.  Targets are all writers and readers; histories are all sequences
// of <= 2 other operations, among them writes that fail part-way in every
// format and reads that fail.
type histOp struct {
	name string
	run  func() string
}

type limitWriter struct{ calls, failCall int }

func (w *limitWriter) Write(p []byte) (int, error) {
	w.calls++
	if w.calls > w.failCall {
		return 0, fmt.Errorf("injected write fault")
	}
	return len(p), nil
}

// tieFont: glyphs whose only coordinate lies just above (side = +1) or just
// below (side = -1) a point where the closest quotient p/q with q <= 107
// changes.  The two fonts differ by 2e-7 in every coordinate and are written
// differently; anything the writer remembers about one of them under a key
// that is rounded more coarsely shows in the bytes of the other.
func tieFont(side float64) *type1.Font {
	f := fontWith(1)
	f.FontName = "Ties"
	var fr []float64
	for q := 1; q <= 107; q++ {
		for p := 0; p <= q; p++ {
			fr = append(fr, float64(p)/float64(q))
		}
	}
	sort.Float64s(fr)
	var mids []float64
	for i := 1; i < len(fr); i++ {
		if fr[i]-fr[i-1] > 1e-5 {
			mids = append(mids, (fr[i]+fr[i-1])/2)
		}
	}
	for k := 0; k < 48; k++ {
		m := mids[(k*len(mids))/48]
		g := &type1.Glyph{WidthX: 500}
		g.MoveTo(float64(k%3)*7+m+side*1e-7, 0)
		g.LineTo(100, 100+m+side*1e-7)
		g.ClosePath()
		f.Glyphs[fmt.Sprintf("t%02d", k)] = g
	}
	return f
}

// brokenFonts: charstrings that end the decoding with each of the decoder's errors.
func brokenFonts() map[string][]byte {
	mk := func(cs []byte) []byte {
		return t1raw.Build(t1raw.FontSpec{EncLenIV: 4,
			Glyphs: map[string][]byte{".notdef": {139, 248, 136, 13, 14}, "B": cs},
			Order:  []string{".notdef", "B"}})
	}
	return map[string][]byte{
		"an operator that lacks operands":    mk([]byte{139, 248, 136, 13, 144, 5}),
		"more than 24 numbers":               mk(append(bytes.Repeat([]byte{139}, 30), 14)),
		"an undefined subroutine":            mk([]byte{139, 248, 136, 13, 239, 10, 14}),
		"a charstring that ends in a number": mk([]byte{139, 248, 136, 13, 255, 0, 0}),
	}
}

func histTargets() []histOp {
	var ops []histOp
	for _, nm := range []string{"an operator that lacks operands", "more than 24 numbers", "an undefined subroutine", "a charstring that ends in a number"} {
		data := brokenFonts()[nm]
		ops = append(ops, histOp{"type1.Read(font with " + nm + ")", func() string { return observe.Run("font", bytes.NewReader(data)).Obs }})
	}
	ops = append(ops, histOp{"Font.Write(coordinates just above the ties of the quotient search)", func() string {
		var b bytes.Buffer
		err := tieFont(+1).Write(&b, &type1.WriterOptions{Format: type1.FormatNoEExec})
		return fmt.Sprintf("%x err=%v", b.Bytes(), err)
	}})
	for _, format := range corpus.Formats {
		format := format
		ops = append(ops, histOp{"Font.Write(" + corpus.FormatName(format) + ")", func() string {
			var b bytes.Buffer
			err := corpus.SampleFont().Write(&b, &type1.WriterOptions{Format: format})
			return fmt.Sprintf("%x err=%v", b.Bytes(), err)
		}})
	}
	ops = append(ops,
		histOp{"Font.Write(default options)", func() string {
			var b bytes.Buffer
			err := corpus.SampleFont().Write(&b, nil)
			return fmt.Sprintf("%x err=%v", b.Bytes(), err)
		}},
		histOp{"Font.WritePDF", func() string {
			var b bytes.Buffer
			l1, l2, err := corpus.SampleFont().WritePDF(&b)
			return fmt.Sprintf("%x %d %d err=%v", b.Bytes(), l1, l2, err)
		}},
		histOp{"Metrics.Write", func() string {
			var b bytes.Buffer
			m := corpus.SampleMetrics()
			m.Glyphs["f"].Ligatures = map[string]string{"i": "fi"}
			err := m.Write(&b)
			return fmt.Sprintf("%x err=%v", b.Bytes(), err)
		}},
		histOp{"afm.Read", func() string { return observe.Run("afm", bytes.NewReader(corpus.AFMs()[1].Data)).Obs }},
		histOp{"ReadCMap", func() string { return observe.Run("cmap", bytes.NewReader(corpus.CMaps()[0].Data)).Obs }},
		histOp{"pfb decoding", func() string { return observe.Run("pfb", bytes.NewReader(corpus.PFBs()[0].Data)).Obs }},
	)
	for _, in := range corpus.Fonts() {
		in := in
		ops = append(ops, histOp{"type1.Read(" + in.Name + ")", func() string { return observe.Run("font", bytes.NewReader(in.Data)).Obs }})
	}
	// fonts that say `/Encoding StandardEncoding def`
	for _, in := range corpus.FontsT1gen() {
		in := in
		if strings.Contains(in.Name, "composite") || strings.Contains(in.Name, "multi") {
			ops = append(ops, histOp{"type1.Read(" + in.Name + ")", func() string { return observe.Run("font", bytes.NewReader(in.Data)).Obs }})
		}
	}
	return ops
}

func histHistory() []histOp {
	var ops []histOp
	other := func() *type1.Font {
		f := fontWith(3)
		f.FontName, f.FullName, f.Notice = "Other", "Other Font With A Longer Name", strings.Repeat("notice ", 40)
		return f
	}
	for _, format := range corpus.Formats {
		format := format
		for _, k := range []int{0, 1, 2, 3, 5, 8, 20} {
			k := k
			ops = append(ops, histOp{fmt.Sprintf("Font.Write(%s) failing at write call %d", corpus.FormatName(format), k+1), func() string {
				other().Write(&limitWriter{failCall: k}, &type1.WriterOptions{Format: format})
				return ""
			}})
		}
		ops = append(ops, histOp{"Font.Write(" + corpus.FormatName(format) + ") of another font", func() string {
			other().Write(&bytes.Buffer{}, &type1.WriterOptions{Format: format})
			return ""
		}})
	}
	for _, k := range []int{0, 1, 4, 15} {
		k := k
		ops = append(ops,
			histOp{fmt.Sprintf("Font.WritePDF failing at write call %d", k+1), func() string { other().WritePDF(&limitWriter{failCall: k}); return "" }},
			histOp{fmt.Sprintf("Metrics.Write failing at write call %d", k+1), func() string { metricsWith(3, 5).Write(&limitWriter{failCall: k}); return "" }},
		)
	}
	for _, nm := range []string{"an operator that lacks operands", "more than 24 numbers"} {
		data := brokenFonts()[nm]
		ops = append(ops, histOp{"type1.Read of a font with " + nm, func() string { type1.Read(bytes.NewReader(data)); return "" }})
	}
	ops = append(ops, histOp{"Font.Write of the twin font with coordinates just below the ties", func() string {
		tieFont(-1).Write(&bytes.Buffer{}, &type1.WriterOptions{Format: type1.FormatNoEExec})
		return ""
	}})
	ops = append(ops,
		histOp{"Font.Write of a font with a glyph name that cannot be written", func() string {
			f := other()
			f.Glyphs["bad name ("] = &type1.Glyph{WidthX: 100}
			f.Write(&bytes.Buffer{}, &type1.WriterOptions{Format: type1.FormatPFB})
			return ""
		}},
		histOp{"type1.Read of a font that stores into StandardEncoding and systemdict", func() string {
			font := string(corpus.Fonts()[3].Data)
			evil := strings.Replace(font, "/PaintType 0 def", "/PaintType 0 def\nStandardEncoding 65 /evil put\nStandardEncoding 194 /evil2 put\n0 1 31 {StandardEncoding exch /ctl put} for\nsystemdict /StandardEncoding get 66 /evil3 put", 1)
			type1.Read(strings.NewReader(evil))
			return ""
		}},
		histOp{"a program that rewrites the CIDInit procedure set, errordict and FontDirectory", func() string {
			intp := postscript.NewInterpreter()
			intp.ExecuteString("/CIDInit /ProcSet findresource /begincmap {} put errordict /undefined {pop pop} put FontDirectory /X 1 dict put systemdict /def {pop pop} put")
			return ""
		}},
		histOp{"type1.Read of a truncated font", func() string {
			d := corpus.Fonts()[1].Data
			type1.Read(bytes.NewReader(d[:len(d)/2]))
			return ""
		}},
		histOp{"type1.Read of another font", func() string {
			t := corpus.FontsT1gen()
			type1.Read(bytes.NewReader(t[len(t)/2].Data))
			return ""
		}},
		histOp{"ReadCMap of a broken file", func() string {
			d := corpus.CMaps()[1].Data
			postscript.ReadCMap(bytes.NewReader(d[:len(d)*2/3]))
			return ""
		}},
		histOp{"afm.Read of another file", func() string { afm.Read(bytes.NewReader(corpus.AFMs()[2].Data)); return "" }},
		histOp{"a program that fails inside eexec", func() string {
			intp := postscript.NewInterpreter()
			intp.MaxOps = 500
			intp.Execute(bytes.NewReader(corpus.Programs()[0].Data))
			intp.ExecuteString("currentfile eexec 1 (a) add")
			return ""
		}},
	)
	return ops
}

// freshProcessFamily: "in one process or in different processes".  Each item is
// a child process whose first library calls are one history operation followed
// by the target; its output must be the output of the target in a process
// that does nothing else (the worker's own reading at its start).  Unlike the
// family above, the history here runs BEFORE the target's first use, which is
// what matters for anything the library remembers from its first caller.
func freshProcessFamily(budget time.Duration) mc.Family {
	targets, hist := histTargets(), histHistory()
	nh := len(hist)
	var refs []string
	return mc.Family{
		Name: "history-before-first-use-in-a-fresh-process", Items: len(targets) * (1 + nh), Budget: budget,
		Rule: fmt.Sprintf("%d targets x {no history, each of the %d history operations}: a child process (`c17 -child target history`) runs the history operation and then the target as its first library calls and prints a hash of the target's output; it must equal the hash of the output this worker obtained at its own start; non-trivial = all", len(targets), nh),
		Body: func(c *mc.Ctx, item int) mc.Verdict {
			zzverifrt.OrderHook = nil
			if refs == nil {
				for _, t := range targets {
					refs = append(refs, t.run())
				}
			}
			ti, h := item%len(targets), item/len(targets)-1
			exe, err := os.Executable()
			if err != nil {
				return mc.Fail("C17:harness:executable", err.Error())
			}
			out, err := exec.Command(exe, "-child", fmt.Sprint(ti), fmt.Sprint(h)).Output()
			c.Step()
			what := targets[ti].name + " as the first call of a process"
			if h >= 0 {
				what = targets[ti].name + " in a process whose only earlier call was: " + hist[h].name
			}
			if err != nil {
				return mc.Fail("C17:fresh-process:child-died", what+": "+err.Error())
			}
			want := fmt.Sprintf("%x\n", sha1.Sum([]byte(refs[ti])))
			if string(out) != want {
				v := mc.Fail("C17:fresh-process:output-differs:"+strings.SplitN(targets[ti].name, "(", 2)[0], what+": the output differs from the output of the same call in another process (hashes "+strings.TrimSpace(string(out))+" / "+strings.TrimSpace(want)+")")
				v.Render = what
				return v
			}
			v := mc.Pass("same-as-in-another-process", true)
			if c.Render() {
				v.Render = what + " → identical"
			}
			return v
		},
		Describe: func(item int) string {
			return fmt.Sprintf("target %d history %d", item%len(targets), item/len(targets)-1)
		},
	}
}

func freshChild(args []string) {
	targets, hist := histTargets(), histHistory()
	ti, _ := strconv.Atoi(args[0])
	h, _ := strconv.Atoi(args[1])
	if h >= 0 {
		hist[h].run()
	}
	fmt.Printf("%x\n", sha1.Sum([]byte(targets[ti].run())))
}

func historiesFamily(budget time.Duration) mc.Family {
	targets, hist := histTargets(), histHistory()
	nh := len(hist)
	nseq := 1 + nh + nh*nh
	var refs []string
	return mc.Family{
		Name: "repeatability-across-histories", Items: len(targets) * (1 + nh), Budget: budget,
		Rule: fmt.Sprintf("%d target operations (Font.Write in 4 formats and with default options, WritePDF, Metrics.Write, afm.Read, ReadCMap, PFB decoding, type1.Read of 4 containers) x every history of 0..2 operations out of %d (writes of another font in every format that fail at write call 1, 2, 3, 4, 6, 9, 21 or succeed, WritePDF and Metrics.Write failing at 4 points, a writer error, reads of other / truncated / broken files, a program failing inside eexec); item = (target, first history operation), choice = second; the target's output after the history must be byte-identical to its output at process start (%d histories per target); built with the deterministic LIFO Pool of the sync shim; non-trivial = non-empty history", len(targets), nh, nseq),
		Body: func(c *mc.Ctx, item int) mc.Verdict {
			zzverifrt.OrderHook = nil
			if refs == nil {
				for _, t := range targets {
					refs = append(refs, t.run())
				}
			}
			ti, first := item%len(targets), item/len(targets)
			var seq []int
			if first > 0 {
				seq = append(seq, first-1)
				if k := c.Choose(nh + 1); k > 0 {
					seq = append(seq, k-1)
				}
			}
			var names []string
			for _, h := range seq {
				hist[h].run()
				names = append(names, hist[h].name)
			}
			got := targets[ti].run()
			c.Step()
			if got != refs[ti] {
				n := 0
				for n < len(got) && n < len(refs[ti]) && got[n] == refs[ti][n] {
					n++
				}
				lo := max(0, n-40)
				v := mc.Fail("C17:history-dependent:"+targets[ti].name, fmt.Sprintf("%s gives a different result after [%s] than at process start: first difference at byte %d: %q vs %q", targets[ti].name, strings.Join(names, " ; "), n, clip(got[lo:]), clip(refs[ti][lo:])))
				v.Render = targets[ti].name + " after " + strings.Join(names, " ; ")
				return v
			}
			v := mc.Pass(targets[ti].name, len(seq) > 0)
			if c.Render() {
				v.Render = targets[ti].name + " after [" + strings.Join(names, " ; ") + "] → identical"
			}
			return v
		},
		Describe: func(i int) string { return targets[i%len(targets)].name },
	}
}

func main() {
	if len(os.Args) > 1 && os.Args[1] == "-child" {
		freshChild(os.Args[2:])
		return
	}
	ws := workloads()
	mc.Main(mc.Program{
		Property: "C17",
		Assumptions: []string{
			"only map iteration sites in the repository's own packages are controlled (13 sites found by the typed-AST scan, listed in build/gen-c17-sites.json); the standard library (text/template and fmt sort map keys) is trusted",
			"a typed-AST inventory of the non-test sources finds no use of time.Now, math/rand, unsafe or %p",
			"forall over a dictionary is order-revealing by PostScript's own definition; the workloads use it only in order-insensitive ways",
		},
		TrustedBase: []string{"tools/instrument (rewrite of range-over-map and maps.Keys/Values sites)", "go build -overlay"},
		Families: func(tier string) []mc.Family {
			budget := 50 * time.Second
			dev := 3
			if tier == "thorough" {
				budget = 10 * time.Minute
				dev = 4
			}
			sites, _ := os.ReadFile("build/gen-c17-sites.json")
			return []mc.Family{historiesFamily(budget), freshProcessFamily(budget), {
				Name: "map-order-permutations", Items: len(ws), MaxDev: dev, Budget: budget,
				Rule: fmt.Sprintf("%d workloads (Font.Write x 4 formats, WritePDF, font queries, write+read for 1..4 glyphs; Metrics.Write with 1..3 ligatures x 1,3,5 glyphs, metrics queries, write+read; ReadCMap with 1..3 CMaps per file; type1.Read of 4 containers; a dictionary-copy program) x every assignment of iteration orders to the map-iteration sites met, with <= %d sites deviating from sorted order (all n! orders for n<=4, rotations+adjacent swaps beyond) and every assignment of clock jumps {0, 3 s, 1000 h} to the readings of the wall clock met (time.Now / Since / Until are routed through the overlay; the pinned library never reads the clock); non-trivial = at least one site iterated in a non-sorted order; instrumented sites: %s", len(ws), dev, strings.Join(strings.Fields(string(sites)), "")),
				Body: func(c *mc.Ctx, item int) mc.Verdict {
					w := ws[item]
					ref, ok := refs[item]
					if !ok {
						zzverifrt.OrderHook = nil
						ref = w.run()
						refs[item] = ref
					}
					var trace []string
					deviated := false
					zzverifrt.OrderHook = func(site string, n int) []int {
						p := orderChoice(c, n)
						for i, v := range p {
							if i != v {
								deviated = true
							}
						}
						if c.Render() && len(trace) < 30 {
							trace = append(trace, fmt.Sprintf("%s%v", site, p))
						}
						return p
					}
					// the wall clock, wherever the library reads it, is the explorer's too:
					// between two readings no time, three seconds or six weeks may pass
					zzverifrt.ClockHook = func() time.Duration {
						k := c.Deviate(3)
						if k > 0 {
							deviated = true
							if c.Render() && len(trace) < 30 {
								trace = append(trace, fmt.Sprintf("clock+%v", clockJumps[k]))
							}
						}
						return clockJumps[k]
					}
					got := w.run()
					zzverifrt.OrderHook = nil
					zzverifrt.ClockHook = nil
					c.Step()
					if got != ref {
						n := 0
						for n < len(got) && n < len(ref) && got[n] == ref[n] {
							n++
						}
						lo := max(0, n-40)
						v := mc.Fail("C17:order-dependent:"+strings.SplitN(w.name, "(", 2)[0], fmt.Sprintf("%s: result depends on map iteration order or on the wall clock (orders / clock jumps %v): first difference at byte %d: %q vs %q", w.name, trace, n, clip(got[lo:]), clip(ref[lo:])))
						v.Render = w.name
						return v
					}
					v := mc.Pass(strings.SplitN(w.name, "(", 2)[0], deviated)
					if c.Render() {
						v.Render = fmt.Sprintf("%s with orders %v → identical", w.name, trace)
					}
					return v
				},
				Describe: func(i int) string { return ws[i].name },
			}}
		},
	})
}

func clip(s string) string {
	if len(s) > 120 {
		return s[:120]
	}
	return s
}
