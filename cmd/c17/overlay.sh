#!/bin/bash
# regenerates the map-order overlay from /repo's working tree
# usage: overlay.sh <out.json> [rel=file ...]   (extra args: mutated files, see tools/mutrun.sh)
set -e
here="$(cd "$(dirname "$0")/../.." && pwd)"
out="$1"; shift
export GOFLAGS=-mod=mod GOPROXY=off GOSUMDB=off GOTOOLCHAIN=local
if [ ! -x "$here/build/bin/instrument" ] || [ "$here/tools/instrument/main.go" -nt "$here/build/bin/instrument" ]; then
  (cd "$here/tools/instrument" && go build -o "$here/build/bin/instrument" .)
fi
args=()
for r in "$@"; do args+=(-replace "$r"); done
"$here/build/bin/instrument" -mode maporder,sync,clock -out "$out" -gen "$here/build/gen-c17" -rt "$here/overlay/zzverifrt.go.txt" -report "$here/build/gen-c17-sites.json" "${args[@]}"
