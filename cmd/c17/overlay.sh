#!/bin/bash
# regenerates the map-order overlay from /repo's working tree
# usage: overlay.sh <out.json> [rel=file ...]   (extra args: mutated files, see tools/mutrun.sh)
set -e
here="$(cd "$(dirname "$0")/../.." && pwd)"
out="$1"; shift
export GOFLAGS=-mod=mod GOPROXY=off GOSUMDB=off GOTOOLCHAIN=local
if [ ! -x "$here/build/bin/instrument" ] || [ "$here/tools/instrument/main.go" -nt "$here/build/bin/instrument" ]; then
  (cd "$here/tools/instrument" && go build -o "$here/build/bin/instrument" .)
fi
args=()
for r in "$@"; do args+=(-replace "$r"); done
gen="$here/build/gen-c17"; report="$here/build/gen-c17-sites.json"
# a mutant run (tools/mutrun.sh) gets its own generated files: it may run next to the real check
case "$(basename "$out")" in *-mut-*) gen="$here/build/gen-$(basename "$out" .json)"; report="$gen-sites.json";; esac
"$here/build/bin/instrument" -mode maporder,sync,clock -out "$out" -gen "$gen" -rt "$here/overlay/zzverifrt.go.txt" -report "$report" "${args[@]}"
