// C12 — results do not depend on how the input stream is delivered.
//
// Environment exploration on the real readers: for each corpus input the
// io.Reader handed to the library asks the explorer for every answer.  Default
// = fill the caller's buffer; deviations = deliver only 1, 2, 3, 7 or 511
// bytes, or deliver the last bytes together with io.EOF.  Exhaustive with at
// most 2 deviations at any Read calls (this contains every two-chunk split),
// plus the fixed schedules "always 1/2/3 bytes" and "always 1 byte, EOF with
// the data"; seekable and non-seekable sources for type1.Read.
// Execute-splitting: every subset of <= 3 (quick 2) token boundaries of the
// programs that do not read their own text, fed as consecutive Execute calls.
//
// Oracle: the observation (canonical interpreter state / deep dump of the
// result, and the error text) is identical to the run that delivers everything
// in one Read.
package main

import (
	"bytes"
	"fmt"
	"io"
	"strings"
	"time"

	"seehuhn.de/go/postscript"

	"verif/env"
	"verif/mc"
	"verif/model/corpus"
	"verif/model/observe"
	"verif/model/pscmp"
)

type entry struct {
	in   corpus.Input
	kind string // reader kind for observe.Run
}

func entries() []entry {
	var es []entry
	for _, in := range corpus.Programs() {
		es = append(es, entry{in, "ps"})
		if bytes.HasPrefix(in.Data, []byte("%!")) {
			es = append(es, entry{in, "ps-checkstart"})
		}
	}
	for _, in := range corpus.CMaps() {
		es = append(es, entry{in, "cmap"})
	}
	for _, in := range corpus.Fonts() {
		es = append(es, entry{in, "font"})
	}
	for _, in := range corpus.FontsT1gen() {
		es = append(es, entry{in, "font"})
	}
	for _, in := range corpus.AFMs() {
		es = append(es, entry{in, "afm"})
	}
	for _, in := range corpus.PFBs() {
		es = append(es, entry{in, "pfb"})
	}
	return es
}

var sizes = []int{0, 1, 2, 3, 7, 511, -1} // -1: an empty read (0, nil)

const nSchedules = 6 // deviation mode, always 1, always 2, always 3, always 1 + EOF with data, always 7

func diffAt(a, b string) string {
	n := 0
	for n < len(a) && n < len(b) && a[n] == b[n] {
		n++
	}
	lo := max(0, n-60)
	return fmt.Sprintf("first difference at byte %d: …%q vs …%q", n, clip(a[lo:], 160), clip(b[lo:], 160))
}

func clip(s string, n int) string {
	if len(s) > n {
		return s[:n]
	}
	return s
}

var refCache = map[string]string{}

func reference(e entry) string {
	k := e.kind + "/" + e.in.Name
	if r, ok := refCache[k]; ok {
		return r
	}
	r := observe.Run(e.kind, bytes.NewReader(e.in.Data)).Obs
	refCache[k] = r
	return r
}

func deliveryFamily(es []entry, maxDev int, budget time.Duration) mc.Family {
	// item = (entry, schedule, seekable?, shard); for the explorer-decided
	// schedule the executions are partitioned by the index (mod nShard) of the
	// Read call at which the first deviation happens, to balance the workers
	const nShard = 16
	nVar := nSchedules * 2 * nShard
	return mc.Family{
		Name: "delivery-schedules", Items: len(es) * nVar, MaxDev: maxDev, Budget: budget,
		Rule: fmt.Sprintf("%d corpus inputs (programs incl. eexec hex/binary, readstring, DSC, CheckStart; CMaps; the sample font in 4 formats; AFM files; PFB streams) x {explorer-decided delivery with <= %d deviations per execution from the default 'fill the buffer' — deviation = deliver 1,2,3,7,511 bytes, nothing at all ((0, nil), which io.Reader permits) or the last bytes together with io.EOF —, always 1 byte, always 2, always 3, always 1 with EOF attached, always 7} x {plain reader, seekable reader}; non-trivial = the delivery differed from a single full read (more than one Read call delivered data)", len(es), maxDev),
		Body: func(c *mc.Ctx, item int) mc.Verdict {
			e := es[item/nVar]
			shard := item % nShard
			sched := (item % nVar) / nShard / 2
			seekable := (item%nVar)/nShard%2 == 1
			if seekable && e.kind != "font" {
				return mc.Pass("n/a-seekable-only-for-fonts", false)
			}
			if sched != 0 && shard != 0 {
				return mc.Pass("n/a-shard", false)
			}
			deviated := false
			src := env.NewSource(e.in.Data)
			if seekable && sched >= 1 && sched <= 3 {
				// the font does not start at offset 0 of the seekable source
				junk := bytes.Repeat([]byte("junk before the font\n"), []int{0, 1, 3, 40}[sched])[:[]int{0, 1, 16, 700}[sched]]
				src = env.NewSource(append(append([]byte{}, junk...), e.in.Data...))
				src.Pos = len(junk)
			}
			var trace []string
			src.Decide = func(call, want, remaining int) (int, bool) {
				var n int
				eof := false
				switch sched {
				case 0:
					d := 0
					if deviated || call%nShard == shard {
						d = c.Deviate(len(sizes) + 1)
					}
					if d != 0 {
						deviated = true
					}
					switch {
					case d == 0:
						n = want
					case d == len(sizes):
						n, eof = want, true
					default:
						n = sizes[d]
					}
				case 1:
					n = 1
				case 2:
					n = 2
				case 3:
					n = 3
				case 4:
					n, eof = 1, true
				case 5:
					n = 7
				}
				if c.Render() && len(trace) < 40 {
					trace = append(trace, fmt.Sprintf("%d/%d", max(0, min(n, min(want, remaining))), want))
				}
				return n, eof
			}
			var r io.Reader = src
			if seekable {
				r = env.SeekSource{Source: src}
			}
			got := observe.Run(e.kind, r)
			c.Steps(src.Calls)
			want := reference(e)
			name := e.kind + "/" + e.in.Name
			if got.Obs != want {
				v := mc.Fail("C12:delivery:"+e.kind+":"+e.in.Name, fmt.Sprintf("%s, schedule %d, seekable=%v, choices decide the reads: result differs from the single-read run: %s", name, sched, seekable, diffAt(got.Obs, want)))
				v.Render = fmt.Sprintf("%s schedule=%d reads=%v", name, sched, trace)
				return v
			}
			v := mc.Pass(fmt.Sprintf("%s/sched%d", e.kind, sched), src.Calls > 2)
			if c.Render() {
				v.Render = fmt.Sprintf("%s schedule=%d seekable=%v reads(delivered/asked)=%v → identical result", name, sched, seekable, trace)
			}
			return v
		},
		Describe: func(item int) string { e := es[item/nVar]; return e.kind + "/" + e.in.Name },
		CrashKey: func(item int) string { e := es[item/nVar]; return "C12:crash:" + e.kind + "/" + e.in.Name },
	}
}

var opTable = pscmp.NewOpTable()

func splitFamily(maxSplits int, budget time.Duration) mc.Family {
	var progs []corpus.Input
	for _, in := range corpus.Programs() {
		if in.Tokens != nil && len(in.Tokens) <= 200 {
			progs = append(progs, in)
		}
	}
	// item = (program, first boundary)
	// budget modes: none; one operation less than the program needs; about half
	type it struct{ p, first, mode int }
	var items []it
	for pi, p := range progs {
		for b := 0; b <= len(p.Tokens); b++ {
			for mode := 0; mode < 3; mode++ {
				items = append(items, it{pi, b, mode})
			}
		}
	}
	refs := map[[2]int]string{}
	totals := map[int]int{}
	return mc.Family{
		Name: "execute-splitting", Items: len(items), Budget: budget,
		Rule: fmt.Sprintf("%d programs that do not read their own text x every set of 1..%d token boundaries (boundary = immediately after a token's last byte, also inside an unfinished procedure body), the pieces fed to ONE interpreter in consecutive Execute calls, x operation budget {none, one less than the program needs, about half of it}; item = (program, first boundary, budget), further boundaries by c.Choose; state, error and operation count compared with the one-call run; non-trivial = at least one piece boundary inside the program", len(progs), maxSplits),
		Body: func(c *mc.Ctx, item int) mc.Verdict {
			p := progs[items[item].p]
			cuts := []int{items[item].first}
			for len(cuts) < maxSplits {
				last := cuts[len(cuts)-1]
				rest := len(p.Tokens) - last
				k := c.Choose(rest + 1)
				if k == 0 {
					break
				}
				cuts = append(cuts, last+k)
			}
			checkStart := bytes.HasPrefix(p.Data, []byte("%!"))
			mode := items[item].mode
			total, ok := totals[items[item].p]
			if !ok {
				intp := postscript.NewInterpreter()
				intp.CheckStart = checkStart
				intp.Execute(bytes.NewReader(p.Data))
				total = intp.NumOps
				totals[items[item].p] = total
			}
			maxOps := 0
			switch mode {
			case 1:
				maxOps = total - 1
			case 2:
				maxOps = total/2 + 1
			}
			if mode > 0 && maxOps < 1 {
				return mc.Pass("n/a:program-too-short-for-a-budget", false)
			}
			ref, ok := refs[[2]int{items[item].p, mode}]
			if !ok {
				intp := postscript.NewInterpreter()
				intp.CheckStart = checkStart
				intp.MaxOps = maxOps
				err := intp.Execute(bytes.NewReader(p.Data))
				ref = pscmp.Canon(opTable, intp) + fmt.Sprint(" ERR ", err, " NumOps ", intp.NumOps)
				refs[[2]int{items[item].p, mode}] = ref
			}
			intp := postscript.NewInterpreter()
			intp.CheckStart = checkStart
			intp.MaxOps = maxOps
			if checkStart && cuts[0] == 0 {
				// an empty first piece cannot carry the %! header
				return mc.Pass("n/a:empty-first-piece-with-start-check", false)
			}
			var err error
			prev := 0
			var pieces []string
			for _, cut := range append(cuts, len(p.Tokens)) {
				piece := strings.Join(p.Tokens[prev:cut], "")
				prev = cut
				pieces = append(pieces, piece)
				err = intp.ExecuteString(piece)
				c.Step()
				if err != nil {
					break
				}
			}
			got := pscmp.Canon(opTable, intp) + fmt.Sprint(" ERR ", err, " NumOps ", intp.NumOps)
			if got != ref {
				v := mc.Fail("C12:split:"+p.Name, fmt.Sprintf("program %s (MaxOps=%d) split into %q: state differs from the one-call run: %s", p.Name, maxOps, pieces, diffAt(got, ref)))
				v.Render = fmt.Sprintf("%q", pieces)
				return v
			}
			v := mc.Pass(fmt.Sprintf("%d-pieces", len(cuts)+1), cuts[0] > 0 && cuts[0] < len(p.Tokens))
			if c.Render() {
				v.Render = fmt.Sprintf("%s cut at token boundaries %v → identical state", p.Name, cuts)
			}
			return v
		},
	}
}

func main() {
	mc.Main(mc.Program{
		Property: "C12",
		Assumptions: []string{
			"readers that return (0, nil) forever are excluded by the property",
			"Execute-splitting applies to programs that do not read their own text, and the corpus never writes a %% comment directly behind a token on the same line",
			"the corpus is fixed (13 programs/files + 4 font containers + 6 PFB streams); deviations are bounded, executions run to completion",
		},
		TrustedBase: []string{"pscmp.Canon / observe.Dump as complete renderings of the result"},
		Families: func(tier string) []mc.Family {
			budget := 50 * time.Second
			dev, splits := 2, 3
			if tier == "thorough" {
				budget = 25 * time.Minute
				dev, splits = 3, 4
			}
			return []mc.Family{deliveryFamily(entries(), dev, budget), splitFamily(splits, budget)}
		},
	})
}
