// C12 — results do not depend on how the input stream is delivered.
//
// Environment exploration on the real readers: for each corpus input the
// io.Reader handed to the library asks the explorer for every answer.  Default
// = fill the caller's buffer; deviations = deliver only 1, 2, 3, 7 or 511
// bytes, or deliver the last bytes together with io.EOF.  Exhaustive with at
// most 2 deviations at any Read calls (this contains every two-chunk split),
// plus the fixed schedules "always 1/2/3 bytes" and "always 1 byte, EOF with
// the data"; seekable and non-seekable sources for type1.Read.
// Execute-splitting: every subset of <= 3 (quick 2) token boundaries of the
// programs that do not read their own text, fed as consecutive Execute calls.
//
// Oracle: the observation (canonical interpreter state / deep dump of the
// result, and the error text) is identical to the run that delivers everything
// in one Read.
package main

import (
	"bytes"
	"fmt"
	"io"
	"strings"
	"testing/iotest"
	"time"

	"seehuhn.de/go/postscript"

	"verif/env"
	"verif/mc"
	"verif/model/corpus"
	"verif/model/observe"
	"verif/model/pscmp"
)

type entry struct {
	in   corpus.Input
	kind string // reader kind for observe.Run
}

func entries() []entry {
	var es []entry
	for _, in := range corpus.Programs() {
		es = append(es, entry{in, "ps"})
		if bytes.HasPrefix(in.Data, []byte("%!")) {
			es = append(es, entry{in, "ps-checkstart"})
		}
	}
	for _, in := range corpus.CMaps() {
		es = append(es, entry{in, "cmap"})
	}
	for _, in := range corpus.Fonts() {
		es = append(es, entry{in, "font"})
	}
	for _, in := range corpus.FontsT1gen() {
		es = append(es, entry{in, "font"})
	}
	for _, in := range corpus.AFMs() {
		es = append(es, entry{in, "afm"})
	}
	for _, in := range corpus.PFBs() {
		es = append(es, entry{in, "pfb"})
	}
	return es
}

var sizes = []int{0, 1, 2, 3, 7, 511, -1} // -1: an empty read (0, nil)

const nSchedules = 6 // deviation mode, always 1, always 2, always 3, always 1 + EOF with data, always 7

func diffAt(a, b string) string {
	n := 0
	for n < len(a) && n < len(b) && a[n] == b[n] {
		n++
	}
	lo := max(0, n-60)
	return fmt.Sprintf("first difference at byte %d: …%q vs …%q", n, clip(a[lo:], 160), clip(b[lo:], 160))
}

func clip(s string, n int) string {
	if len(s) > n {
		return s[:n]
	}
	return s
}

var refCache = map[string]string{}

func reference(e entry) string {
	k := e.kind + "/" + e.in.Name
	if r, ok := refCache[k]; ok {
		return r
	}
	r := observe.Run(e.kind, bytes.NewReader(e.in.Data)).Obs
	refCache[k] = r
	return r
}

func deliveryFamily(es []entry, maxDev int, budget time.Duration) mc.Family {
	// item = (entry, schedule, seekable?, shard); for the explorer-decided
	// schedule the executions are partitioned by the index (mod nShard) of the
	// Read call at which the first deviation happens, to balance the workers
	const nShard = 16
	nVar := nSchedules * 2 * nShard
	return mc.Family{
		Name: "delivery-schedules", Items: len(es) * nVar, MaxDev: maxDev, Budget: budget,
		Rule: fmt.Sprintf("%d corpus inputs (programs incl. eexec hex/binary, readstring, DSC, CheckStart; CMaps; the sample font in 4 formats; AFM files; PFB streams) x {explorer-decided delivery with <= %d deviations per execution from the default 'fill the buffer' — deviation = deliver 1,2,3,7,511 bytes, nothing at all ((0, nil), which io.Reader permits) or the last bytes together with io.EOF —, always 1 byte, always 2, always 3, always 1 with EOF attached, always 7} x {plain reader, seekable reader}; non-trivial = the delivery differed from a single full read (more than one Read call delivered data)", len(es), maxDev),
		Body: func(c *mc.Ctx, item int) mc.Verdict {
			e := es[item/nVar]
			shard := item % nShard
			sched := (item % nVar) / nShard / 2
			seekable := (item%nVar)/nShard%2 == 1
			if seekable && e.kind != "font" {
				return mc.Pass("n/a-seekable-only-for-fonts", false)
			}
			if sched != 0 && shard != 0 {
				return mc.Pass("n/a-shard", false)
			}
			deviated := false
			src := env.NewSource(e.in.Data)
			if seekable && sched >= 1 && sched <= 3 {
				// the font does not start at offset 0 of the seekable source
				junk := bytes.Repeat([]byte("junk before the font\n"), []int{0, 1, 3, 40}[sched])[:[]int{0, 1, 16, 700}[sched]]
				src = env.NewSource(append(append([]byte{}, junk...), e.in.Data...))
				src.Pos = len(junk)
			}
			var trace []string
			src.Decide = func(call, want, remaining int) (int, bool) {
				var n int
				eof := false
				switch sched {
				case 0:
					d := 0
					if deviated || call%nShard == shard {
						d = c.Deviate(len(sizes) + 1)
					}
					if d != 0 {
						deviated = true
					}
					switch {
					case d == 0:
						n = want
					case d == len(sizes):
						n, eof = want, true
					default:
						n = sizes[d]
					}
				case 1:
					n = 1
				case 2:
					n = 2
				case 3:
					n = 3
				case 4:
					n, eof = 1, true
				case 5:
					n = 7
				}
				if c.Render() && len(trace) < 40 {
					trace = append(trace, fmt.Sprintf("%d/%d", max(0, min(n, min(want, remaining))), want))
				}
				return n, eof
			}
			var r io.Reader = src
			if seekable {
				r = env.SeekSource{Source: src}
			}
			got := observe.Run(e.kind, r)
			c.Steps(src.Calls)
			want := reference(e)
			name := e.kind + "/" + e.in.Name
			if got.Obs != want {
				v := mc.Fail("C12:delivery:"+e.kind+":"+e.in.Name, fmt.Sprintf("%s, schedule %d, seekable=%v, choices decide the reads: result differs from the single-read run: %s", name, sched, seekable, diffAt(got.Obs, want)))
				v.Render = fmt.Sprintf("%s schedule=%d reads=%v", name, sched, trace)
				return v
			}
			v := mc.Pass(fmt.Sprintf("%s/sched%d", e.kind, sched), src.Calls > 2)
			if c.Render() {
				v.Render = fmt.Sprintf("%s schedule=%d seekable=%v reads(delivered/asked)=%v → identical result", name, sched, seekable, trace)
			}
			return v
		},
		Describe: func(item int) string { e := es[item/nVar]; return e.kind + "/" + e.in.Name },
		CrashKey: func(item int) string { e := es[item/nVar]; return "C12:crash:" + e.kind + "/" + e.in.Name },
	}
}

var opTable = pscmp.NewOpTable()

func splitFamily(maxSplits int, budget time.Duration) mc.Family {
	var progs []corpus.Input
	for _, in := range corpus.Programs() {
		if in.Tokens != nil && len(in.Tokens) <= 200 {
			progs = append(progs, in)
		}
	}
	// item = (program, first boundary)
	// budget modes: none; one operation less than the program needs; about half
	type it struct{ p, first, mode int }
	var items []it
	for pi, p := range progs {
		for b := 0; b <= len(p.Tokens); b++ {
			for mode := 0; mode < 3; mode++ {
				items = append(items, it{pi, b, mode})
			}
		}
	}
	refs := map[[2]int]string{}
	totals := map[int]int{}
	return mc.Family{
		Name: "execute-splitting", Items: len(items), Budget: budget,
		Rule: fmt.Sprintf("%d programs that do not read their own text x every set of 1..%d token boundaries (boundary = immediately after a token's last byte, also inside an unfinished procedure body), the pieces fed to ONE interpreter in consecutive Execute calls, x operation budget {none, one less than the program needs, about half of it}; item = (program, first boundary, budget), further boundaries by c.Choose; state, error and operation count compared with the one-call run; non-trivial = at least one piece boundary inside the program", len(progs), maxSplits),
		Body: func(c *mc.Ctx, item int) mc.Verdict {
			p := progs[items[item].p]
			cuts := []int{items[item].first}
			for len(cuts) < maxSplits {
				last := cuts[len(cuts)-1]
				rest := len(p.Tokens) - last
				k := c.Choose(rest + 1)
				if k == 0 {
					break
				}
				cuts = append(cuts, last+k)
			}
			checkStart := bytes.HasPrefix(p.Data, []byte("%!"))
			mode := items[item].mode
			total, ok := totals[items[item].p]
			if !ok {
				intp := postscript.NewInterpreter()
				intp.CheckStart = checkStart
				intp.Execute(bytes.NewReader(p.Data))
				total = intp.NumOps
				totals[items[item].p] = total
			}
			maxOps := 0
			switch mode {
			case 1:
				maxOps = total - 1
			case 2:
				maxOps = total/2 + 1
			}
			if mode > 0 && maxOps < 1 {
				return mc.Pass("n/a:program-too-short-for-a-budget", false)
			}
			ref, ok := refs[[2]int{items[item].p, mode}]
			if !ok {
				intp := postscript.NewInterpreter()
				intp.CheckStart = checkStart
				intp.MaxOps = maxOps
				err := intp.Execute(bytes.NewReader(p.Data))
				ref = pscmp.Canon(opTable, intp) + fmt.Sprint(" ERR ", err, " NumOps ", intp.NumOps)
				refs[[2]int{items[item].p, mode}] = ref
			}
			intp := postscript.NewInterpreter()
			intp.CheckStart = checkStart
			intp.MaxOps = maxOps
			if checkStart && cuts[0] == 0 {
				// an empty first piece cannot carry the %! header
				return mc.Pass("n/a:empty-first-piece-with-start-check", false)
			}
			var err error
			prev := 0
			var pieces []string
			for _, cut := range append(cuts, len(p.Tokens)) {
				piece := strings.Join(p.Tokens[prev:cut], "")
				prev = cut
				pieces = append(pieces, piece)
				err = intp.ExecuteString(piece)
				c.Step()
				if err != nil {
					break
				}
			}
			got := pscmp.Canon(opTable, intp) + fmt.Sprint(" ERR ", err, " NumOps ", intp.NumOps)
			if got != ref {
				v := mc.Fail("C12:split:"+p.Name, fmt.Sprintf("program %s (MaxOps=%d) split into %q: state differs from the one-call run: %s", p.Name, maxOps, pieces, diffAt(got, ref)))
				v.Render = fmt.Sprintf("%q", pieces)
				return v
			}
			v := mc.Pass(fmt.Sprintf("%d-pieces", len(cuts)+1), cuts[0] > 0 && cuts[0] < len(p.Tokens))
			if c.Render() {
				v.Render = fmt.Sprintf("%s cut at token boundaries %v → identical state", p.Name, cuts)
			}
			return v
		},
	}
}

// heavyFamily: inputs that cost millions of operations are read through a few
// kinds of reader only (the delivery family would take hours on them): what
// the library may learn from its source besides the bytes - that it can seek,
// how long it is - must not change the result, in particular not the amount
// of work it is willing to do.
func heavyFamily(budget time.Duration) mc.Family {
	type heavy struct {
		name, kind string
		data       []byte
	}
	pad := func(n int) string { return strings.Repeat("% padding padding padding padding padding padding padding\n", n/56) }
	font := corpus.Fonts()[3].Data // clear-text font
	loopFont := func(rounds, padding int) []byte {
		return append([]byte("%!PS-AdobeFont-1.0: Heavy 001.000\n"+pad(padding)+fmt.Sprintf("1 1 %d { pop } for\n", rounds)), font[bytes.IndexByte(font, '\n')+1:]...)
	}
	cmap := corpus.CMaps()[0].Data
	loopCMap := func(rounds, padding int) []byte {
		return append([]byte("%!PS-Adobe-3.0 Resource-CMap\n"+pad(padding)+fmt.Sprintf("1 1 %d { pop } for\n", rounds)), cmap...)
	}
	hs := []heavy{
		{"font, 1.35 million rounds of a loop (about 4 million operations) in a 60 KB file", "font", loopFont(1350000, 60000)},
		{"font, 0.9 million rounds (about 2.7 million operations) in a 60 KB file", "font", loopFont(900000, 60000)},
		{"font, 1.35 million rounds in a 2 KB file", "font", loopFont(1350000, 1000)},
		{"font, 1.35 million rounds in a 400 KB file", "font", loopFont(1350000, 400000)},
		{"CMap, 0.4 million rounds in a 60 KB file", "cmap", loopCMap(400000, 60000)},
		{"CMap, 0.3 million rounds in a 400 KB file", "cmap", loopCMap(300000, 400000)},
	}
	// AFM files whose last line is long and not ended by a line break (any limit on
	// the length of a line must act the same however the bytes arrive)
	afmHead := "StartFontMetrics 4.1\nFontName Long\nStartCharMetrics 1\nC 65 ; WX 500 ; N A ; B 0 0 10 10 ;\nEndCharMetrics\n"
	for _, n := range []int{65535, 65536, 65537, 1<<20 - 1, 1 << 20, 1<<24 - 1, 1 << 24, 1<<24 + 1} {
		line := "Notice " + strings.Repeat("n", n-7)
		hs = append(hs, heavy{fmt.Sprintf("AFM file whose last line has %d bytes and no line end", n), "afm", []byte(afmHead + line)})
	}
	readers := []string{"bytes.Reader (seekable)", "plain io.Reader", "seekable reader positioned behind 1000 other bytes", "one byte per Read call (inputs above 2 MiB: the last bytes together with io.EOF)"}
	return mc.Family{
		Name: "heavy-inputs-through-different-readers", Items: len(hs), Budget: budget,
		Rule: fmt.Sprintf("%d inputs whose programs run a loop of 0.3 .. 1.35 million rounds (just below and above the readers' own operation budgets) in files of 2 KB .. 400 KB, and AFM files whose unterminated last line has 65535 .. 2^24+1 bytes, each read through %v: the four results (a font / CMap or the budget error) must be identical; non-trivial = all", len(hs), readers),
		Body: func(c *mc.Ctx, item int) mc.Verdict {
			h := hs[item]
			var obs []string
			for ri := range readers {
				var r io.Reader
				switch ri {
				case 0:
					r = bytes.NewReader(h.data)
				case 1:
					r = struct{ io.Reader }{bytes.NewReader(h.data)}
				case 2:
					br := bytes.NewReader(append(bytes.Repeat([]byte{'#'}, 1000), h.data...))
					br.Seek(1000, io.SeekStart)
					r = br
				default:
					if len(h.data) > 1<<21 {
						r = iotest.DataErrReader(bytes.NewReader(h.data)) // (one byte per call would take minutes here) the last bytes together with io.EOF
					} else {
						r = iotest.OneByteReader(bytes.NewReader(h.data))
					}
				}
				obs = append(obs, observe.Run(h.kind, r).Obs)
				c.Step()
			}
			for ri := 1; ri < len(obs); ri++ {
				if obs[ri] != obs[0] {
					v := mc.Fail("C12:heavy:result-depends-on-the-reader", fmt.Sprintf("%s: through %s: %s; through %s: %s", h.name, readers[0], clipO(obs[0]), readers[ri], clipO(obs[ri])))
					v.Render = h.name
					return v
				}
			}
			out := "accepted"
			if strings.Contains(obs[0], "execution limit") {
				out = "budget-error"
			}
			v := mc.Pass(out, true)
			if c.Render() {
				v.Render = h.name + " → " + out + " through all readers"
			}
			return v
		},
		Describe: func(i int) string { return hs[i].name },
	}
}

// longSplitFamily: long programs (thousands of lines) fed in one call and in 2..7
// calls cut at line ends: limits that are kept per call instead of per
// interpreter show as different results.
func longSplitFamily(budget time.Duration) mc.Family {
	type long struct {
		name  string
		lines []string
	}
	var ls []long
	for _, n := range []int{999, 1000, 1001, 1500, 5000} {
		var l []string
		for i := 0; i < n; i++ {
			l = append(l, fmt.Sprintf("%%%%Page: %d %d\n/p%d %d def\n", i, i, i%7, i))
		}
		ls = append(ls, long{fmt.Sprintf("%d structured comments, each followed by a definition", n), l})
	}
	{
		var l []string
		for i := 0; i < 3000; i++ {
			l = append(l, fmt.Sprintf("/k%d %d def %% comment %d\n", i%50, i, i))
		}
		ls = append(ls, long{"3000 definitions with trailing comments", l})
		var m []string
		for i := 0; i < 700; i++ {
			m = append(m, fmt.Sprintf("%d\n", i), "pop\n")
		}
		ls = append(ls, long{"1400 one-token lines", m})
	}
	parts := []int{2, 3, 5, 7}
	return mc.Family{
		Name: "long-programs-in-several-calls", Items: len(ls) * len(parts), Budget: budget,
		Rule: fmt.Sprintf("%d programs of 1400 .. 10000 lines (up to 5000 structured comments) fed to one interpreter in one call and in %v calls cut at line ends: operand stack, dictionaries, structured comments and error must be the same; non-trivial = all", len(ls), parts),
		Body: func(c *mc.Ctx, item int) mc.Verdict {
			l := ls[item%len(ls)]
			k := parts[item/len(ls)]
			obs := func(pieces []string) string {
				intp := postscript.NewInterpreter()
				intp.MaxOps = 1000000
				var err error
				for _, p := range pieces {
					if err = intp.ExecuteString(p); err != nil {
						break
					}
				}
				return fmt.Sprintf("%s DSC=%d:%v ERR %v", pscmp.Canon(opTable, intp), len(intp.DSC), intp.DSC, err)
			}
			whole := obs([]string{strings.Join(l.lines, "")})
			var pieces []string
			for i := 0; i < k; i++ {
				pieces = append(pieces, strings.Join(l.lines[i*len(l.lines)/k:(i+1)*len(l.lines)/k], ""))
			}
			split := obs(pieces)
			c.Steps(2)
			if whole != split {
				n := 0
				for n < len(whole) && n < len(split) && whole[n] == split[n] {
					n++
				}
				v := mc.Fail("C12:long-split:differs", fmt.Sprintf("%s: in one call …%s; in %d calls …%s", l.name, clipO(whole[max(0, n-60):]), k, clipO(split[max(0, n-60):])))
				v.Render = l.name
				return v
			}
			return mc.Pass("same", true)
		},
		Describe: func(i int) string { return fmt.Sprintf("%s in %d calls", ls[i%len(ls)].name, parts[i/len(ls)]) },
	}
}

func clipO(s string) string {
	if len(s) > 160 {
		return "…" + s[len(s)-160:]
	}
	return s
}

func main() {
	mc.Main(mc.Program{
		Property: "C12",
		Assumptions: []string{
			"readers that return (0, nil) forever are excluded by the property",
			"Execute-splitting applies to programs that do not read their own text, and the corpus never writes a %% comment directly behind a token on the same line",
			"the corpus is fixed (13 programs/files + 4 font containers + 6 PFB streams); deviations are bounded, executions run to completion",
		},
		TrustedBase: []string{"pscmp.Canon / observe.Dump as complete renderings of the result"},
		Families: func(tier string) []mc.Family {
			budget := 50 * time.Second
			dev, splits := 2, 3
			if tier == "thorough" {
				budget = 25 * time.Minute
				dev, splits = 3, 4
			}
			return []mc.Family{deliveryFamily(entries(), dev, budget), splitFamily(splits, budget), heavyFamily(budget), longSplitFamily(budget)}
		},
	})
}
