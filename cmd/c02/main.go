// C02 — data operators compute what the PostScript reference prescribes.
//
// Decided by bounded-exhaustive exploration of the real interpreter against
// the reference machine verif/model/psmodel:
//
//  1. operand tuples: every operator of systemdict applied to every tuple of
//     k <= 3 (thorough: 4) operands from a pool of ~40 operand expressions
//     (boundary integers, reals, booleans, names, strings, arrays, dictionaries,
//     procedures, marks, and aliased pairs: a container and its own
//     sub-interval, a second reference to the same dictionary);
//  2. operator sequences: explicit-state search over sequences of macro
//     operations from six start states, model and implementation stepped in
//     lock-step through repeated Execute calls on the same interpreter, the
//     full state compared after every step.
//
// Oracle: equality of operand stack, dictionary stack and all reachable
// dictionary/array/string contents including sharing (see pscmp); on a model
// error the implementation must fail with the same error name (or one of the
// names the reference admits when several preconditions are violated).  The
// state after an error is not compared (the property does not prescribe it).
// Tolerances: model/psmodel/RESTRICTIONS.md.
package main

import (
	"fmt"
	"strings"
	"time"

	"seehuhn.de/go/postscript"

	"verif/mc"
	"verif/model/pscmp"
	"verif/model/psmodel"
	"verif/model/psrun"
)

// The preamble defines shared objects in userdict; operand expressions refer
// to them so that aliasing between operands is part of the enumeration.
const preamble = `/A [1 2 3] def /B 5 array def /S (a` + "\xe9" + `c) def /T 4 string def ` +
	`/D 3 dict def D /x 1 put /E << /x 2 /y (s) >> def /P {1 add} def /Q {pop} def ` +
	`/count 99 def ` + // an operator name shadowed in userdict: lookups must find the topmost definition
	`/ E /Font defineresource pop / 7 def ` + // the empty name is a name like any other: a font and a value are known under it
	`/R {(xyz)} def ` + // a string literal inside a procedure body: every run of the body pushes the same string object
	`/F 80 dict def` // an empty dictionary with room for the long literals, known under a name: what an operator stores into it must be found through the name

var pool = []string{
	// integers incl. boundaries
	"0", "1", "-1", "2", "3", "255", "256", "1000",
	"2147483647", "2147483648", "-2147483648", "-2147483649",
	"9007199254740992", "9007199254740993", "-9007199254740993",
	"9223372036854775807", "9223372036854775806", "-9223372036854775808", "-9223372036854775807",
	"65536", "65537", "4294967296", "4294967295", "3037000500", "-3037000500",
	// the null object (an untouched array element)
	"B 0 get",
	// reals
	"0.5", "-1.5", "2.0",
	// booleans, names
	"true", "false", "/x", "/A", "/zz", "/add", "/count", "/", "/Font",
	// strings and their sub-intervals
	"S", "S 1 2 getinterval", "S 0 2 getinterval", "T", "()",
	// arrays and their sub-intervals
	"A", "A 1 2 getinterval", "A 0 2 getinterval", "B", "[]",
	// dictionaries
	"D", "E", "D", // (D twice: second reference to the same dictionary)
	"F", // empty, large enough to take a copy of the 70-entry literal below
	// distinct one-entry dictionaries whose keys are the names an implementation
	// might use as probes ("0", "1", …): equal length, different identity
	"<< /a 1 >>", "<< /0 2 >>", "<< /1 2 >>",
	// a literal that names a key twice (the last value wins), and literals long
	// enough for an implementation to treat them differently from short ones
	"<< /a 1 /b 2 /a 3 >>", "[ 70 {7} repeat ]", "<< 0 1 69 { dup } for >>",
	// procedures, mark
	"/P load", "/Q load", "{}", "mark",
	// a mark pushed by `<<` is a mark like any other (`]`, cleartomark and counttomark find it);
	// the string that a procedure body holds (writing to it changes what the next run pushes)
	"<<", "R",
	// the interpreter's own shared-looking objects as operands (they are per
	// instance: whatever one program stores there must not be visible to the
	// fresh interpreter of the next execution)
	"StandardEncoding", "systemdict", "FontDirectory", "errordict",
}

// quickPool indexes the pool entries used for the largest arity.
var smallPool = []string{"0", "1", "-1", "3", "9223372036854775807", "-9223372036854775808", "0.5", "true", "/x", "/count", "S", "S 1 2 getinterval", "S 0 2 getinterval", "A", "A 1 2 getinterval", "A 0 2 getinterval", "D", "E", "/P load", "{}", "mark", "<<", "R", "StandardEncoding", "systemdict"}

var operators = func() []string {
	var ops []string
	for _, n := range psmodel.OperatorNames {
		switch n {
		case "closefile", "readstring", "eexec", "currentfile":
			continue // file operators: C05
		}
		ops = append(ops, n)
	}
	// names in systemdict that are not operators
	ops = append(ops, "true", "false", "systemdict", "userdict", "errordict", "FontDirectory", "StandardEncoding")
	return ops
}()

var opTable = pscmp.NewOpTable()

type tupleSpace struct {
	pool  []string
	arity int
	count int // pool^arity
}

func pow(b, e int) int {
	r := 1
	for i := 0; i < e; i++ {
		r *= b
	}
	return r
}

func (ts tupleSpace) program(idx int, op string) string {
	parts := make([]string, ts.arity)
	for i := ts.arity - 1; i >= 0; i-- {
		parts[i] = ts.pool[idx%len(ts.pool)]
		idx /= len(ts.pool)
	}
	parts = append(parts, op)
	return strings.Join(parts, " ")
}

func operandTypes(m *psmodel.M, arity int) string {
	var t []string
	for i := len(m.Stack) - arity; i < len(m.Stack); i++ {
		if i < 0 {
			continue
		}
		switch v := m.Stack[i].(type) {
		case psmodel.Int:
			t = append(t, "int")
		case psmodel.Real:
			t = append(t, "real")
		case psmodel.Bool:
			t = append(t, "bool")
		case psmodel.Name:
			t = append(t, "name")
		case psmodel.Str:
			t = append(t, "str")
		case psmodel.Arr:
			if v.X {
				t = append(t, "proc")
			} else {
				t = append(t, "arr")
			}
		case *psmodel.Dict:
			t = append(t, "dict")
		case psmodel.Mark:
			t = append(t, "mark")
		default:
			t = append(t, "other")
		}
	}
	return strings.Join(t, ",")
}

// chunk: number of tuples per item
const chunk = 64

func tupleFamily(name string, spaces []tupleSpace, budget time.Duration) mc.Family {
	// item = (space, op, chunk of tuples)
	type block struct {
		sp, op, first int
	}
	var blocks []block
	for si, sp := range spaces {
		for oi := range operators {
			for f := 0; f < sp.count; f += chunk {
				blocks = append(blocks, block{si, oi, f})
			}
		}
	}
	total := 0
	for _, sp := range spaces {
		total += sp.count * len(operators)
	}
	return mc.Family{
		Name:   name,
		Items:  len(blocks),
		Budget: budget,
		Rule: fmt.Sprintf("every operator/name of systemdict (%d) applied to every operand tuple: arity 0..%d over a pool of %d operand expressions (boundary integers 0,+-1,+-2^31,+-2^53,min/max int; reals; booleans; names; strings, arrays and their own sub-intervals; two references to one dictionary; procedures; mark)%s; %d programs; "+
			"each item is a block of %d tuples chosen by c.Choose; non-trivial = the reference defines the result (success with full state comparison, or a prescribed error name)", len(operators), spaces[len(spaces)-1].arity, len(pool),
			fmt.Sprintf(", arity %d over a reduced pool of %d", spaces[len(spaces)-1].arity, len(spaces[len(spaces)-1].pool)), total, chunk),
		Body: func(c *mc.Ctx, item int) mc.Verdict {
			b := blocks[item]
			sp := spaces[b.sp]
			n := min(chunk, sp.count-b.first)
			idx := b.first + c.Choose(n)
			op := operators[b.op]
			prog := sp.program(idx, op)
			pr := psrun.NewPair(opTable)
			if r := pr.Step(preamble); !r.OK || r.Skipped {
				// the preamble uses def/put/array/string/dict/<< >> only; a difference
				// here is a difference of the initial state (systemdict contents,
				// StandardEncoding, errordict, resources) or of those operators
				return mc.Fail("C02:initial-state-or-preamble:"+r.Class, "after the preamble `"+preamble+"`: "+r.Detail)
			}
			r := pr.Step(prog)
			c.Step()
			if !r.OK {
				// operand types as the reference sees them (for the finding key)
				mt := psmodel.New()
				mt.Run(preamble)
				mt.Run(strings.TrimSuffix(prog, op))
				types := operandTypes(mt, sp.arity)
				v := mc.Fail(fmt.Sprintf("C02:%s:%s:(%s)", op, r.Class, types), fmt.Sprintf("program `%s` (after preamble `%s`): %s", prog, preamble, r.Detail))
				v.Render = prog
				return v
			}
			v := mc.Pass(op+"/"+r.Outcome, !r.Skipped)
			if len(v.Outcome) > 40 {
				v.Outcome = v.Outcome[:40]
			}
			v.Outcome = r.Outcome
			if c.Render() {
				v.Render = prog + "  → " + r.Outcome + " stack [" + pscmp.ShowStack(pr.I.Stack) + "]"
			}
			return v
		},
		Describe: func(item int) string {
			b := blocks[item]
			return fmt.Sprintf("operator %s, tuples %d.. of arity %d", operators[b.op], b.first, spaces[b.sp].arity)
		},
		CrashKey: func(item int) string { return "C02:crash:" + operators[blocks[item].op] },
	}
}

// ---------------------------------------------------------------------------
// integer boundaries

// boundaryInts: 2^k-1, 2^k, 2^k+1 and their negatives for the k where a
// 64-bit implementation can go wrong, plus the neighbourhood of sqrt(2^63)
// and of 2^32 (products of two such values straddle 2^63 and 2^64).
var boundaryInts = func() []string {
	seen := map[int64]bool{}
	var out []string
	add := func(v int64) {
		if !seen[v] {
			seen[v] = true
			out = append(out, fmt.Sprint(v))
		}
	}
	for _, k := range []uint{0, 1, 2, 7, 8, 15, 16, 24, 31, 32, 33, 48, 52, 53, 62} {
		for d := int64(-1); d <= 1; d++ {
			add(int64(1)<<k + d)
			add(-(int64(1)<<k + d))
		}
	}
	for _, v := range []int64{3037000498, 3037000499, 3037000500, 3037000501, 4294967295, 4294967297, 6074000999, 2654435761, 3000000000,
		9223372036854775807, 9223372036854775806, -9223372036854775807, -9223372036854775808, 4611686018427387904, 4611686018427387903,
		10, 100, 1000000007, 5, -5, 3, -3} {
		add(v)
		add(-v)
	}
	return out
}()

var binaryNumOps = []string{"add", "sub", "mul", "idiv", "mod", "div", "eq", "ne", "lt", "le", "gt", "ge", "and", "or", "xor", "bitshift", "max", "min", "exp", "atan"}
var unaryNumOps = []string{"neg", "abs", "not", "cvi", "cvr", "round", "truncate", "floor", "ceiling", "sqrt", "ln", "log", "cvn", "cvs", "cvx", "string", "array", "dict"}

func boundaryFamily(budget time.Duration) mc.Family {
	have := map[string]bool{}
	for _, o := range operators {
		have[o] = true
	}
	var bin, un []string
	for _, o := range binaryNumOps {
		if have[o] {
			bin = append(bin, o)
		}
	}
	for _, o := range unaryNumOps {
		if have[o] {
			un = append(un, o)
		}
	}
	nb := len(boundaryInts)
	return mc.Family{
		Name:   "integer-boundaries",
		Items:  nb * (len(bin) + 2),
		Budget: budget,
		Rule:   fmt.Sprintf("every binary arithmetic, comparison and bitwise operator the library has (%v) applied to every ordered pair of %d boundary integers (+-(2^k-1), +-2^k, +-(2^k+1) for k in {0,1,2,7,8,15,16,24,31,32,33,48,52,53,62}, the neighbourhood of sqrt(2^63) and of 2^32, min/max int, small values), every unary numeric operator (%v) to each, and each as the amount of `n j roll` for n = 0..7 on seven operands and as the operand of index and copy; item = (first operand, operator), Choose = second operand; non-trivial = the reference defines the result", bin, nb, un),
		Body: func(c *mc.Ctx, item int) mc.Verdict {
			a := boundaryInts[item%nb]
			oi := item / nb
			var prog, op string
			if oi < len(bin) {
				op = bin[oi]
				prog = a + " " + boundaryInts[c.Choose(nb)] + " " + op
			} else if oi == len(bin) {
				op = un[c.Choose(len(un))]
				prog = a + " " + op
			} else {
				// boundary integers as counts and positions of the stack operators
				k := c.Choose(10)
				switch {
				case k < 8:
					op = "roll"
					prog = fmt.Sprintf("11 12 13 14 15 16 17 %d %s roll", k, a)
				case k == 8:
					op = "index"
					prog = "11 12 13 14 15 16 17 " + a + " index"
				default:
					op = "copy"
					prog = "11 12 13 14 15 16 17 " + a + " copy"
				}
			}
			pr := psrun.NewPair(opTable)
			r := pr.Step(prog)
			c.Step()
			if !r.OK {
				v := mc.Fail(fmt.Sprintf("C02:boundary:%s:%s", op, r.Class), fmt.Sprintf("program `%s`: %s", prog, r.Detail))
				v.Render = prog
				return v
			}
			v := mc.Pass(r.Outcome, !r.Skipped)
			if c.Render() {
				v.Render = prog + "  → " + r.Outcome + " stack [" + pscmp.ShowStack(pr.I.Stack) + "]"
			}
			return v
		},
		Describe: func(item int) string { return boundaryInts[item%nb] + " with operator group " + fmt.Sprint(item/nb) },
		CrashKey: func(item int) string { return "C02:crash:boundary" },
	}
}

// ---------------------------------------------------------------------------
// operator sequences

var startStates = []string{
	"",
	"/x 2 def /n 3 def 2 dict begin", // names defined below an empty current dictionary
	"/n 1 array 0 get def 2 dict begin /x 5 def /n 7 def 1 dict begin /x 1 array 0 get def", // null values that shadow / are shadowed
	"1 2 3",
	"mark 1 (ab)",
	"[1 2 3] dup 1 2 getinterval",
	"/x 2 def 5 dict begin /x 1 def",
	"(abc) dup 0 2 getinterval 4 string",
	// procedures bound while an operator was known under another name (the name is rebound / goes out of scope later)
	"/n /add load def /x {1 2 n} bind def",
	"/n /mul load def 3 dict begin /n /sub load def userdict /x {7 2 n} bind put",
}

var macroOps = []string{
	// pushes
	"1", "-1", "0", "2", "9223372036854775807", "0.5", "true", "/x", "(ab)", "3 string", "[1 2]", "2 array", "2 dict", "mark", "{pop}",
	// stack
	"dup", "pop", "exch", "copy", "index", "roll", "count", "cleartomark", "]", ">>",
	// arithmetic / boolean / comparison
	"add", "sub", "mul", "abs", "and", "or", "not", "eq", "ne",
	// containers
	"get", "put", "getinterval", "putinterval", "length",
	// dictionaries
	"begin", "end", "def", "load", "known", "where", "currentdict", "userdict",
	// a second name, executed names (values found through the dictionary stack)
	"/n", "x", "n",
	// a name rebound without def, begin or end between two look-ups
	"currentdict /x 9 put", "userdict /n 5 put", "<< /x 3 >> currentdict copy pop",
}

func canonical(m *psmodel.M) []byte {
	var sb strings.Builder
	arrID := map[*psmodel.ArrStore]int{}
	strID := map[*psmodel.StrStore]int{}
	dictID := map[*psmodel.Dict]int{}
	dictID[m.System] = -1 // systemdict contents are not expanded (unchanged by the alphabet unless via put: then visible through userdict? no: keep it simple and sound by expanding when modified)
	var walk func(v psmodel.Val, depth int)
	walkDict := func(d *psmodel.Dict, depth int) {
		if id, ok := dictID[d]; ok {
			fmt.Fprintf(&sb, "d%d ", id)
			return
		}
		id := len(dictID)
		dictID[d] = id
		fmt.Fprintf(&sb, "d%d<", id)
		for _, k := range d.SortedKeys() {
			sb.WriteString(k)
			sb.WriteByte('=')
			walk(d.M[k], depth+1)
		}
		sb.WriteString("> ")
	}
	walk = func(v psmodel.Val, depth int) {
		switch v := v.(type) {
		case psmodel.Arr:
			id, ok := arrID[v.S]
			if !ok {
				id = len(arrID)
				arrID[v.S] = id
				fmt.Fprintf(&sb, "a%d:%d+%d:%v[", id, v.Off, v.Len, v.X)
				for _, e := range v.S.E {
					walk(e, depth+1)
				}
				sb.WriteString("] ")
			} else {
				fmt.Fprintf(&sb, "a%d:%d+%d:%v ", id, v.Off, v.Len, v.X)
			}
		case psmodel.Str:
			id, ok := strID[v.S]
			if !ok {
				id = len(strID)
				strID[v.S] = id
				fmt.Fprintf(&sb, "s%d:%d+%d(%x) ", id, v.Off, v.Len, v.S.B)
			} else {
				fmt.Fprintf(&sb, "s%d:%d+%d ", id, v.Off, v.Len)
			}
		case *psmodel.Dict:
			walkDict(v, depth)
		default:
			sb.WriteString(psmodel.Format(v))
			sb.WriteByte(' ')
		}
	}
	// systemdict is part of the state only through its size and the entries
	// that are not operators of a fresh machine
	fmt.Fprintf(&sb, "sys%d ", len(m.System.M))
	for _, k := range m.System.SortedKeys() {
		if op, ok := m.System.M[k].(psmodel.Op); ok && op.Name == k {
			continue
		}
		switch k {
		case "systemdict", "userdict", "errordict", "FontDirectory", "StandardEncoding", "true", "false":
			continue
		}
		sb.WriteString(k + "=")
		walk(m.System.M[k], 0)
	}
	sb.WriteString("|S ")
	for _, v := range m.Stack {
		walk(v, 0)
	}
	sb.WriteString("|D ")
	for _, d := range m.DStack[1:] {
		walkDict(d, 0)
	}
	return []byte(sb.String())
}

func seqFamily(depth int, budget time.Duration) mc.Family {
	nFirst := len(macroOps)
	return mc.Family{
		Name:   "operator-sequences",
		Items:  len(startStates) * nFirst,
		Budget: budget,
		Rule: fmt.Sprintf("explicit-state search: %d start states x all sequences of <= %d macro operations from an alphabet of %d (pushes of each type, stack, arithmetic, boolean, comparison, container and dictionary operators); implementation and reference stepped in lock-step by repeated Execute calls on one interpreter, full state compared after every step; "+
			"canonical state = operand stack + dictionary stack + reachable heap with identities renumbered in first-visit order; item = (start state, first operation); non-trivial = sequence ran to its full depth or to a prescribed error with at least one successful step", len(startStates), depth, len(macroOps)),
		Body: func(c *mc.Ctx, item int) mc.Verdict {
			start := startStates[item/nFirst]
			first := macroOps[item%nFirst]
			pr := psrun.NewPair(opTable)
			var trace []string
			if start != "" {
				if r := pr.Step(start); !r.OK {
					// library and reference disagree on the fresh state or on the start program
					return mc.Fail("C02:sequences:start-state-differs", start+": "+r.Detail)
				} else if r.Skipped || r.Ended {
					return mc.Fail("C02:harness:start-state", start+": "+r.Detail)
				}
				trace = append(trace, start)
			}
			okSteps := 0
			for d := 0; d < depth; d++ {
				var op string
				if d == 0 {
					op = first
				} else {
					if c.Visit(canonical(pr.M), depth-d) {
						return mc.Pass("pruned-known-state", false)
					}
					op = macroOps[c.Choose(len(macroOps))]
				}
				trace = append(trace, op)
				r := pr.Step(op)
				c.Step()
				if !r.OK {
					v := mc.Fail(fmt.Sprintf("C02:seq:%s:%s", op, r.Class), fmt.Sprintf("sequence `%s`: at `%s`: %s", strings.Join(trace, " | "), op, r.Detail))
					v.Render = strings.Join(trace, " | ")
					return v
				}
				if r.Ended {
					v := mc.Pass("ended:"+r.Outcome, okSteps > 0 && !r.Skipped)
					if c.Render() {
						v.Render = strings.Join(trace, " | ") + " → " + r.Outcome
					}
					return v
				}
				okSteps++
			}
			v := mc.Pass("full-depth", true)
			if c.Render() {
				v.Render = strings.Join(trace, " | ") + " → stack [" + pscmp.ShowStack(pr.I.Stack) + "]"
			}
			return v
		},
		Describe: func(item int) string {
			return fmt.Sprintf("start `%s` first op `%s`", startStates[item/nFirst], macroOps[item%nFirst])
		},
		CrashKey: func(item int) string { return "C02:crash:seq:" + macroOps[item%nFirst] },
	}
}

// refusedDefinitionsFamily: `key instance category defineresource` either
// defines the resource or fails; a definition that is refused is not made.
// After a failing call, a second program on the same interpreter looks the key
// up: it must find what was there before (nothing, or the instance an earlier,
// accepted call had defined).
func refusedDefinitionsFamily(budget time.Duration) mc.Family {
	cats := []string{"/CMap", "/Font", "/ProcSet", "/Encoding", "/NoSuchCategory"}
	insts := []string{"1", "(s)", "[1 2]", "<< >>", "<< /CodeMap 1 >>", "<< /CodeMap << >> >>", "{}", "/n", "true", "B 0 get", "mark", "D"}
	keys := []string{"/K", "/", "(K)", "1"}
	firsts := []string{"", "<< /x 1 >>", "7"}
	n := len(cats) * len(insts) * len(keys) * len(firsts)
	return mc.Family{
		Name: "refused-definitions-are-not-made", Items: n, Budget: budget,
		Rule: fmt.Sprintf("%d programs: (an optional earlier definition of one of %d values,) then `key instance category defineresource` for %d keys x %d instances x %d categories in a first Execute call; when that call fails, `key category findresource` in a second call on the same interpreter must behave as it does on an interpreter that never saw the failing call (same error class, or the same earlier value); non-trivial = the defining call failed", n, len(firsts)-1, len(keys), len(insts), len(cats)),
		Body: func(c *mc.Ctx, item int) mc.Verdict {
			cat := cats[item%len(cats)]
			inst := insts[(item/len(cats))%len(insts)]
			key := keys[(item/len(cats)/len(insts))%len(keys)]
			first := firsts[item/len(cats)/len(insts)/len(keys)]
			pre := preamble + " "
			if first != "" {
				pre += key + " " + first + " " + cat + " defineresource pop "
			}
			look := key + " " + cat + " findresource"
			run := func(withFailingCall bool) (string, bool) {
				intp := postscript.NewInterpreter()
				intp.MaxOps = 100000
				if err := intp.ExecuteString(pre); err != nil {
					return "setup:" + pscmp.ErrName(err), false
				}
				failed := false
				if withFailingCall {
					failed = intp.ExecuteString(key+" "+inst+" "+cat+" defineresource") != nil
				}
				intp.Stack = intp.Stack[:0]
				err := intp.ExecuteString(look)
				out := "error:" + pscmp.ErrName(err)
				if err == nil {
					out = "found: " + pscmp.ShowStack(intp.Stack)
				}
				return out, failed
			}
			got, failed := run(true)
			c.Step()
			if !failed {
				return mc.Pass("accepted-or-setup-failed", false)
			}
			want, _ := run(false)
			prog := strings.TrimSpace(strings.TrimPrefix(pre, preamble)+" ") + " | " + key + " " + inst + " " + cat + " defineresource (fails) | " + look
			if got != want {
				v := mc.Fail("C02:defineresource:refused-definition-was-made", fmt.Sprintf("calls `%s`: the lookup gives %s; without the failing call it gives %s", prog, got, want))
				v.Render = prog
				return v
			}
			v := mc.Pass(want[:min(len(want), 20)], true)
			if c.Render() {
				v.Render = prog + " → " + got
			}
			return v
		},
		Describe: func(item int) string {
			return fmt.Sprintf("%s %s %s defineresource", keys[(item/len(cats)/len(insts))%len(keys)], insts[(item/len(cats))%len(insts)], cats[item%len(cats)])
		},
	}
}

func main() {
	mc.Main(mc.Program{
		Property: "C02",
		Assumptions: []string{
			"the reference machine psmodel is a faithful reading of the PLRM for the supported subset; documented restrictions of the library are listed in model/psmodel/RESTRICTIONS.md",
			"integers are 64-bit and reals are float64 (implementation limits the property accepts); real results are compared exactly because both sides perform the same IEEE operation",
			"state after an error is not compared",
		},
		TrustedBase: []string{"verif/model/psmodel", "verif/model/pscmp (unsafe.SliceData / reflect map pointers as object identity)"},
		Families: func(tier string) []mc.Family {
			spaces := []tupleSpace{}
			for k := 0; k <= 2; k++ {
				spaces = append(spaces, tupleSpace{pool, k, pow(len(pool), k)})
			}
			depth := 3
			budget := 50 * time.Second
			if tier == "thorough" {
				spaces = append(spaces, tupleSpace{pool, 3, pow(len(pool), 3)})
				spaces = append(spaces, tupleSpace{smallPool, 4, pow(len(smallPool), 4)})
				depth = 4
				budget = 12 * time.Minute
			} else {
				spaces = append(spaces, tupleSpace{smallPool, 3, pow(len(smallPool), 3)})
			}
			return []mc.Family{
				tupleFamily("operand-tuples", spaces, budget),
				boundaryFamily(budget),
				seqFamily(depth, budget),
				refusedDefinitionsFamily(budget),
			}
		},
	})
}
