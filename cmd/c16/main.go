// C16 — glyph names and Unicode text map to each other as the AGL specifies.
//
// Everything here is complete enumeration of a stated finite set of inputs to
// the real names.FromUnicode / names.ToUnicode / names.IsValid; one execution
// is one input (both dingbats flags are asked inside the same execution where
// a name is the input).  The oracle is verif/model/aglref: its own parse of the
// three Adobe lists (read from /repo at run time), its own implementation of
// the specification's name->text algorithm and of the validity grammar.
//
// Tolerances, preconditions and documented restrictions (nothing else is
// tolerated):
//
//  1. "Documented compatibility expansion" = the table literal `compat` in
//     type1/names/compat.go, read as text at run time from the repository
//     (no library code involved).  For a character r listed there the round
//     trip may return either {r} or exactly the listed expansion; for every
//     other scalar value only {r} is accepted.
//  2. Tcommaaccent / tcommaaccent: glyphlist.txt lists 0162 / 0163 (cedilla);
//     the library deliberately returns 021A / 021B (comma below), see the
//     "fix up some swapped character codes" switch in names.go getFile().
//     This is a deliberate deviation from the letter of the list, motivated
//     by what glyphs of that name depict (Adobe itself went back and forth:
//     AGLFN 1.0 renamed the names to [Tt]cedilla, 1.1 renamed them back, 1.7
//     dropped all "commaaccent" names).  The table family accepts, for these
//     two names only, either the listed value or the library's documented
//     replacement, and counts the second case under the outcome
//     "tolerated:Tcommaaccent-fixup" so that it stays visible in the evidence.
//     The two names are kept out of the composite pool.
//  3. Name length in IsValid is counted in bytes; for every name the grammar
//     allows bytes and characters coincide (ASCII only).
//  4. FromUnicode is only required to round-trip (the property does not say
//     which name is to be chosen); whether the AGLFN name was chosen is
//     recorded in the outcome histogram but not demanded (characters with a
//     documented expansion legitimately get a composite name instead).
//  5. Surrogate code points are not scalar values and are not fed to
//     FromUnicode.
//
// Tiers.  Both tiers: all 1,112,064 scalar values (round trip, and one
// execution holding all names for injectivity); all list entries; all uniXXXX,
// uXXXX and uXXXXX upper-case values; lower-case digits in every position set
// for all 4-digit values; group pairs/triples; wrong lengths; composites of
// 1-3 components; IsValid on all strings of length <= 3 over 16 bytes.
// Quick takes the 6-digit u form on stride-free bands around every boundary
// (000000, D7FF/D800, DFFF/E000, FFFF/10000, FFFFF/100000, 10FFFF/110000,
// 7FFFFF/800000, FFFFFF) and around every multiple of 0x10000.  Thorough takes
// all 16,777,216 six-digit values and adds: uniXXXXYYYY with one group from
// the boundary list and the other any value (both orders) and all pairs from
// D700-E0FF; lower-case sweeps over all 5-digit values (all position sets)
// and all 6-digit values up to 11FFFF (single positions); composites of 4
// components; IsValid on all strings of length <= 6.
package main

import (
	"fmt"
	"os"
	"os/exec"
	"path/filepath"
	"slices"
	"sort"
	"strconv"
	"strings"

	"seehuhn.de/go/postscript/type1/names"

	"verif/mc"
	"verif/model/aglref"
)

// keyMultiCode is the finding class of the design-time probe: a glyph list
// entry that lists several code points comes back as the single rune U+0000.
const keyMultiCode = "C16:glyphlist:multi-code-entry-maps-to-U+0000"

var (
	tab    *aglref.Tables
	compat map[rune][]rune
)

func repoDir() string {
	if d := os.Getenv("VERIF_REPO"); d != "" {
		return d
	}
	return "/repo"
}

func load() {
	dir := filepath.Join(repoDir(), "type1", "names")
	var err error
	tab, err = aglref.Load(filepath.Join(dir, "agl-aglfn"))
	if err == nil {
		compat, err = aglref.LoadCompat(filepath.Join(dir, "compat.go"))
	}
	if err != nil {
		fmt.Fprintln(os.Stderr, "C16: cannot load reference data:", err)
		os.Exit(2)
	}
}

func hexs(rr []rune) string {
	if len(rr) == 0 {
		return "<nothing>"
	}
	var p []string
	for _, r := range rr {
		p = append(p, fmt.Sprintf("%04X", r))
	}
	return strings.Join(p, " ")
}

// ---------------------------------------------------------------- case spaces

// seg is one finite block of inputs; a space is their disjoint union.
type seg struct {
	key   string // short, stable name of the block (used in finding keys)
	label string
	n     int
	gen   func(i int) string
}

type space struct {
	segs []seg
	cum  []int
}

func newSpace(segs ...seg) *space {
	s := &space{segs: segs}
	t := 0
	for _, g := range segs {
		t += g.n
		s.cum = append(s.cum, t)
	}
	return s
}

func (s *space) size() int { return s.cum[len(s.cum)-1] }

func (s *space) at(item int) (g *seg, in string) {
	k := sort.SearchInts(s.cum, item+1)
	base := 0
	if k > 0 {
		base = s.cum[k-1]
	}
	return &s.segs[k], s.segs[k].gen(item - base)
}

func (s *space) rule() string {
	var p []string
	for _, g := range s.segs {
		p = append(p, fmt.Sprintf("%s (%d)", g.label, g.n))
	}
	return strings.Join(p, "; ")
}

// words returns all strings of exactly n bytes over alpha, as a segment.
func words(key, label string, prefix string, alpha string, n int) seg {
	total := 1
	for i := 0; i < n; i++ {
		total *= len(alpha)
	}
	return seg{key: key, label: label, n: total, gen: func(i int) string {
		b := make([]byte, n)
		for k := n - 1; k >= 0; k-- {
			b[k] = alpha[i%len(alpha)]
			i /= len(alpha)
		}
		return prefix + string(b)
	}}
}

func list(key, label string, items []string) seg {
	return seg{key: key, label: label, n: len(items), gen: func(i int) string { return items[i] }}
}

// hexMasked formats v with the given number of upper-case digits and then
// lower-cases the digit positions selected by mask (bit k = k-th digit from
// the left).
func hexMasked(v, digits, mask int) string {
	b := []byte(fmt.Sprintf("%0*X", digits, v))
	for k := 0; k < len(b); k++ {
		if mask>>k&1 == 1 && b[k] >= 'A' && b[k] <= 'F' {
			b[k] += 'a' - 'A'
		}
	}
	return string(b)
}

// band returns all values lo..hi as names prefix+%0*X.
func band(key, label, prefix string, digits, lo, hi int) seg {
	return seg{key: key, label: label, n: hi - lo + 1, gen: func(i int) string {
		return fmt.Sprintf("%s%0*X", prefix, digits, lo+i)
	}}
}

// the bytes around the edges of 0-9, A-F and a-f
const edgeAlphabet = "/09:@AFG`afg"

var boundaryValues = []int{0x0000, 0x0041, 0x20AC, 0xD7FF, 0xD800, 0xDBFF, 0xDC00, 0xDFFF, 0xE000, 0xFFFD, 0xFFFF}

var boundary6 = []int{0x0, 0xD7FF, 0xD800, 0xDFFF, 0xE000, 0xFFFF, 0x10000, 0x1040C, 0xFFFFF, 0x100000, 0x10FFFF, 0x110000, 0x11FFFF, 0x7FFFFF, 0x800000, 0xFFFFFF}

func uniSpace(tier string) *space {
	var groups []string
	for _, v := range boundaryValues {
		groups = append(groups, fmt.Sprintf("%04X", v))
	}
	groups = append(groups, "00e9", "004G") // a lower-case and a non-hexadecimal group
	ng := len(groups)
	var lengths []string
	for _, fill := range []string{"0", "A", "0041", "D800", "g"} {
		for k := 0; k <= 17; k++ {
			lengths = append(lengths, "uni"+strings.Repeat(fill, 17)[:k])
		}
	}
	other := []string{"Uni0041", "UNI0041", "un0041", "unI0041", "uni 0041", "uni0041 ", " uni0041", "uni+0041", "uni-0041", "uni0x41",
		"uni00410", "uni004100", "uni0041004", "uniFFFFFFFFFFFFFFFFFFFFFFFFFFFFFFFFFFFFFFFF", "uni00000000000000000000000000000000",
		"unié0041", "uni0041é", "uni００４１", "uni\x000041", "uni0041\x00"}
	segs := []seg{
		band("4-digits-upper", "uniXXXX, all 4-digit upper-case values", "uni", 4, 0, 0xFFFF),
		{key: "4-digits-lower-case", label: "uniXXXX, every value x every non-empty set of digit positions written in lower case", n: 15 * 65536, gen: func(i int) string {
			return "uni" + hexMasked(i/15, 4, i%15+1)
		}},
		words("4-edge-bytes", "uni + 4 bytes over the edge alphabet "+fmt.Sprintf("%q", edgeAlphabet), "uni", edgeAlphabet, 4),
		{key: "group-pairs", label: fmt.Sprintf("uni + ordered pairs of groups from %v", groups), n: ng * ng, gen: func(i int) string {
			return "uni" + groups[i/ng] + groups[i%ng]
		}},
		{key: "group-triples", label: "uni + ordered triples of the same groups", n: ng * ng * ng, gen: func(i int) string {
			return "uni" + groups[i/ng/ng] + groups[i/ng%ng] + groups[i%ng]
		}},
		list("lengths", "uni + 0..17 digits (fills 0, A, 0041, D800, g): wrong lengths", lengths),
		list("near-misses", "near misses of the prefix and stray bytes", other),
	}
	if tier == "thorough" {
		nb := len(boundaryValues)
		segs = append(segs,
			seg{key: "boundary-group+any-group", label: "uni + boundary group + every 4-digit group", n: nb * 65536, gen: func(i int) string {
				return fmt.Sprintf("uni%04X%04X", boundaryValues[i/65536], i%65536)
			}},
			seg{key: "any-group+boundary-group", label: "uni + every 4-digit group + boundary group", n: nb * 65536, gen: func(i int) string {
				return fmt.Sprintf("uni%04X%04X", i%65536, boundaryValues[i/65536])
			}},
			seg{key: "surrogate-neighbourhood-pairs", label: "uni + two groups, each any value D700-E0FF", n: 0xA00 * 0xA00, gen: func(i int) string {
				return fmt.Sprintf("uni%04X%04X", 0xD700+i/0xA00, 0xD700+i%0xA00)
			}},
		)
	}
	return newSpace(segs...)
}

func uSpace(tier string) *space {
	var lengths []string
	for _, fill := range []string{"0", "A", "F", "10FFFF", "g"} {
		for k := 0; k <= 10; k++ {
			lengths = append(lengths, "u"+strings.Repeat(fill, 10)[:k])
		}
	}
	other := []string{"U0041", "U+0041", "u+0041", "u 0041", "u0041 ", " u0041", "u-0041", "u0x41", "uu0041", "ué0041", "u0041é",
		"u００４１", "u\x000041", "u0041\x00", "u0000041", "u00000041", "u0010FFFF", "u010FFFF", "uFFFFFFF", "u1000000"}
	segs := []seg{
		band("4-digits-upper", "uXXXX, all 4-digit upper-case values", "u", 4, 0, 0xFFFF),
		band("5-digits-upper", "uXXXXX, all 5-digit upper-case values", "u", 5, 0, 0xFFFFF),
		{key: "4-digits-lower-case", label: "uXXXX, every value x every non-empty set of digit positions written in lower case", n: 15 * 65536, gen: func(i int) string {
			return "u" + hexMasked(i/15, 4, i%15+1)
		}},
		{key: "5-6-digits-lower-case", label: fmt.Sprintf("uXXXXX / uXXXXXX for the values %X x every non-empty set of digit positions in lower case", boundary6), n: len(boundary6) * (31 + 63), gen: func(i int) string {
			v, m := boundary6[i/94], i%94
			if m < 31 {
				return "u" + hexMasked(v&0xFFFFF, 5, m+1)
			}
			return "u" + hexMasked(v, 6, m-31+1)
		}},
		words("4-edge-bytes", "u + 4 bytes over the edge alphabet "+fmt.Sprintf("%q", edgeAlphabet), "u", edgeAlphabet, 4),
		words("5-edge-bytes", "u + 5 bytes over \"/0AFGa\"", "u", "/0AFGa", 5),
		words("6-edge-bytes", "u + 6 bytes over \"/0AFGa\"", "u", "/0AFGa", 6),
		list("lengths", "u + 0..10 digits (fills 0, A, F, 10FFFF, g): wrong lengths", lengths),
		list("near-misses", "near misses of the prefix, stray bytes, 7 and 8 digits", other),
	}
	if tier != "thorough" {
		// stride-free bands around every boundary of the 6-digit form
		for _, b := range [][2]int{{0, 0x1FF}, {0xD700, 0xE0FF}, {0xFF00, 0x100FF}, {0xFFF00, 0x1000FF}, {0x10F000, 0x110FFF}, {0x7FFF00, 0x8000FF}, {0xFFFE00, 0xFFFFFF}} {
			segs = append(segs, band("6-digits-upper", fmt.Sprintf("uXXXXXX, all values %06X-%06X", b[0], b[1]), "u", 6, b[0], b[1]))
		}
		segs = append(segs, seg{key: "6-digits-upper", label: "uXXXXXX, every multiple of 0x10000 -1, +0, +1", n: 256 * 3, gen: func(i int) string {
			return fmt.Sprintf("u%06X", ((i/3)<<16+i%3-1)&0xFFFFFF)
		}})
	} else {
		segs = append(segs,
			band("6-digits-upper", "uXXXXXX, all 6-digit upper-case values", "u", 6, 0, 0xFFFFFF),
			seg{key: "5-digits-lower-case", label: "uXXXXX, every value x every non-empty set of digit positions written in lower case", n: 31 << 20, gen: func(i int) string {
				return "u" + hexMasked(i/31, 5, i%31+1)
			}},
			seg{key: "6-digits-lower-case", label: "uXXXXXX, every value 000000-11FFFF x one digit position written in lower case", n: 6 * 0x120000, gen: func(i int) string {
				return "u" + hexMasked(i/6, 6, 1<<(i%6))
			}},
		)
	}
	return newSpace(segs...)
}

// formBody checks one "uni"/"u"-shaped name under both dingbats flags.
func formBody(form string, sp *space) func(c *mc.Ctx, item int) mc.Verdict {
	return func(c *mc.Ctx, item int) mc.Verdict {
		g, name := sp.at(item)
		outcome := ""
		for _, ding := range []bool{false, true} {
			want := tab.ToText(name, ding)
			got := names.ToUnicode(name, ding)
			c.Step()
			if !slices.Equal(want, got) {
				kind := "wrong-text"
				switch {
				case len(want) == 0:
					kind = "malformed-name-accepted"
				case len(got) == 0:
					kind = "well-formed-name-rejected"
				}
				v := mc.Fail(fmt.Sprintf("C16:%s-form:%s:%s", form, kind, g.key),
					fmt.Sprintf("ToUnicode(%q, dingbats=%v) = %s, AGL specification: %s  [%s]", name, ding, hexs(got), hexs(want), g.label))
				v.Render = fmt.Sprintf("%q", name)
				return v
			}
			if !ding {
				switch {
				case len(want) == 0:
					outcome = "maps-to-nothing"
				case len(want) == 1 && want[0] >= 0x10000:
					outcome = "one-supplementary-character"
				case len(want) == 1:
					outcome = "one-BMP-character"
				default:
					outcome = fmt.Sprintf("%d-characters", len(want))
				}
			}
		}
		v := mc.Pass(outcome, outcome != "maps-to-nothing")
		if c.Render() {
			v.Render = fmt.Sprintf("ToUnicode(%q) = %s", name, hexs(tab.ToText(name, false)))
		}
		return v
	}
}

// ------------------------------------------------------------ scalar values

func scalar(item int) rune {
	if item < 0xD800 {
		return rune(item)
	}
	return rune(item + 0x800)
}

const numScalars = 0x110000 - 0x800

func nameShape(r rune, name string) string {
	if fn, ok := tab.FnName(r); ok && fn == name {
		return "AGLFN-name"
	}
	if strings.Contains(name, "_") {
		return fmt.Sprintf("composite-name(%d)", strings.Count(name, "_")+1)
	}
	if len(name) >= 5 && len(name) <= 7 && name[0] == 'u' && name[1] != 'n' {
		return fmt.Sprintf("u+%d-digits", len(name)-1)
	}
	return "other-name"
}

func roundTripBody(c *mc.Ctx, item int) mc.Verdict {
	r := scalar(item)
	name := names.FromUnicode(r)
	text := names.ToUnicode(name, false)
	c.Steps(2)
	doc, listed := compat[r]
	render := fmt.Sprintf("U+%04X -> %q -> %s", r, name, hexs(text))
	var v mc.Verdict
	switch {
	case len(text) == 1 && text[0] == r:
		cls := "identity:" + nameShape(r, name)
		if listed {
			cls += "(has documented expansion, not used)"
		}
		v = mc.Pass(cls, name != "")
	case listed && slices.Equal(text, doc):
		v = mc.Pass(fmt.Sprintf("documented-expansion(%d):%s", len(doc), nameShape(r, name)), name != "")
	default:
		key := "C16:roundtrip:not-identity"
		exp := fmt.Sprintf("%04X", r)
		switch {
		case listed:
			key = "C16:roundtrip:expansion-differs-from-documented"
			exp += " or the documented expansion " + hexs(doc)
		case len(text) == 0:
			key = "C16:roundtrip:name-maps-to-nothing"
		case len(text) > 1:
			key = "C16:roundtrip:undocumented-expansion"
		}
		v = mc.Fail(key, fmt.Sprintf("FromUnicode(U+%04X) = %q, ToUnicode(%q, false) = %s, expected %s", r, name, name, hexs(text), exp))
	}
	if c.Render() || !v.OK {
		v.Render = render
	}
	return v
}

// injectivityBody is the one execution that sees all names at once.
func injectivityBody(c *mc.Ctx, _ int) mc.Verdict {
	seen := make(map[string]rune, numScalars)
	var clashes []string
	n := 0
	for i := 0; i < numScalars; i++ {
		r := scalar(i)
		name := names.FromUnicode(r)
		if prev, dup := seen[name]; dup {
			n++
			if len(clashes) < 8 {
				clashes = append(clashes, fmt.Sprintf("U+%04X and U+%04X both get %q", prev, r, name))
			}
			continue
		}
		seen[name] = r
	}
	c.Steps(numScalars)
	if n > 0 {
		v := mc.Fail("C16:injectivity:shared-name", fmt.Sprintf("%d characters get a name already given to another character: %s", n, strings.Join(clashes, "; ")))
		v.Render = clashes[0]
		return v
	}
	v := mc.Pass(fmt.Sprintf("%d scalar values, %d distinct names", numScalars, len(seen)), len(seen) == numScalars)
	v.Render = fmt.Sprintf("FromUnicode over all %d scalar values gave %d distinct names", numScalars, len(seen))
	return v
}

// ------------------------------------------------------------ table entries

// the library's documented replacement values (tolerance 2 above)
var commaFixup = map[string]struct{ listed, replaced rune }{
	"Tcommaaccent": {0x0162, 0x021A},
	"tcommaaccent": {0x0163, 0x021B},
}

func tableBody(c *mc.Ctx, item int) mc.Verdict {
	ng, nd := len(tab.Glyph), len(tab.Dingbats)
	switch {
	case item < 2*(ng+nd):
		ding := item%2 == 1
		k := item / 2
		list, e := "glyphlist.txt", aglref.Entry{}
		if k < ng {
			e = tab.Glyph[k]
		} else {
			list, e = "zapfdingbats.txt", tab.Dingbats[k-ng]
		}
		// the listed text is what is demanded whenever the list applies;
		// aglref.ToText must agree with that (self-check of the model)
		want := tab.ToText(e.Name, ding)
		applies := list == "glyphlist.txt" || ding
		if applies {
			if _, shadow := tab.DingbatsText(e.Name); list == "glyphlist.txt" && ding && shadow {
				applies = false
			}
		}
		if applies && !slices.Equal(want, e.Text) {
			return mc.Fail("C16:HARNESS:aglref-disagrees-with-list", fmt.Sprintf("%s:%d %q lists %s, aglref.ToText gives %s", list, e.Line, e.Name, hexs(e.Text), hexs(want)))
		}
		got := names.ToUnicode(e.Name, ding)
		c.Step()
		render := fmt.Sprintf("%s:%d ToUnicode(%q, dingbats=%v) = %s, listed %s", list, e.Line, e.Name, ding, hexs(got), hexs(e.Text))
		var v mc.Verdict
		switch fx, isFx := commaFixup[e.Name]; {
		case slices.Equal(got, want):
			cls := fmt.Sprintf("%s/dingbats=%v:listed-text(%d)", list, ding, len(want))
			if !applies {
				cls = fmt.Sprintf("%s/dingbats=%v:list-does-not-apply(%d)", list, ding, len(want))
			}
			v = mc.Pass(cls, len(got) > 0)
		case isFx && len(want) == 1 && want[0] == fx.listed && len(got) == 1 && got[0] == fx.replaced:
			v = mc.Pass("tolerated:Tcommaaccent-fixup(library returns 021A/021B where the list says 0162/0163)", true)
		case len(e.Text) > 1 && applies && len(got) == 1 && got[0] == 0:
			v = mc.Fail(keyMultiCode, render)
		default:
			kind := "wrong-text"
			if len(got) == 0 {
				kind = "entry-maps-to-nothing"
			} else if len(want) == 0 {
				kind = "list-applied-to-wrong-font"
			}
			v = mc.Fail(fmt.Sprintf("C16:table:%s:%s", strings.TrimSuffix(list, ".txt"), kind), render+"; AGL specification: "+hexs(want))
		}
		if c.Render() || !v.OK {
			v.Render = render
		}
		return v
	default:
		e := tab.AGLFN[item-2*(ng+nd)]
		// AGLFN names are AGL names: the name must map to the listed UV ...
		want := tab.ToText(e.Name, false)
		if len(want) != 1 || want[0] != e.Code {
			return mc.Fail("C16:HARNESS:aglfn-inconsistent-with-agl", fmt.Sprintf("aglfn.txt:%d %04X;%s but the AGL algorithm maps the name to %s", e.Line, e.Code, e.Name, hexs(want)))
		}
		got := names.ToUnicode(e.Name, false)
		chosen := names.FromUnicode(e.Code)
		back := names.ToUnicode(chosen, false)
		c.Steps(3)
		render := fmt.Sprintf("aglfn.txt:%d %04X;%s: ToUnicode(name) = %s, FromUnicode(code) = %q -> %s", e.Line, e.Code, e.Name, hexs(got), chosen, hexs(back))
		var v mc.Verdict
		doc, listed := compat[e.Code]
		switch {
		case !slices.Equal(got, want):
			v = mc.Fail("C16:table:aglfn:name-maps-to-wrong-text", render)
		case !(len(back) == 1 && back[0] == e.Code) && !(listed && slices.Equal(back, doc)):
			v = mc.Fail("C16:table:aglfn:code-does-not-round-trip", render)
		case chosen == e.Name:
			v = mc.Pass("aglfn.txt:AGLFN-name-chosen", true)
		case listed:
			v = mc.Pass("aglfn.txt:documented-expansion-chosen-instead", true)
		default:
			v = mc.Pass("aglfn.txt:other-name-chosen", true)
		}
		if c.Render() || !v.OK {
			v.Render = render
		}
		return v
	}
}

// ---------------------------------------------------------------- composites

type comp struct {
	s     string
	class string
}

var pool = []comp{
	{"A", "glyphlist-entry"},
	{"space", "glyphlist-entry"},
	{"Lcommaaccent", "glyphlist-entry"},
	{"fi", "glyphlist-entry"},
	{"Ogoneksmall", "glyphlist-entry"},
	{"a7", "dingbats-entry"},
	{"a100", "dingbats-entry"},
	{"dalethatafpatah", "multi-code-glyphlist-entry"},
	{"lamedholamdagesh", "multi-code-glyphlist-entry"},
	{"rehyehaleflamarabic", "multi-code-glyphlist-entry"},
	{"uni20AC0308", "uni-form"},
	{"uni0041", "uni-form"},
	{"uniD801DC0C", "uni-form-surrogates"},
	{"uni0041D800", "uni-form-valid-group-then-surrogate"},
	{"uni0042004g", "uni-form-valid-group-then-non-hex"},
	{"uni20ac", "uni-form-lower-case"},
	{"uni004", "uni-form-wrong-length"},
	{"u1040C", "u-form"},
	{"u0041", "u-form"},
	{"u10FFFF", "u-form"},
	{"u110000", "u-form-out-of-range"},
	{"uD800", "u-form-surrogate"},
	{"u041", "u-form-wrong-length"},
	{"foo", "unknown"},
	{"", "empty"},
	{"notdef", "unknown"},
}

var suffixes = []string{"", ".alt", ".", ".a.b", ".sc_A", ".notdef"}

// ownershipBody: what ToUnicode returns belongs to the caller.  Every list entry
// (alone, as first component of a composite, and with a suffix) is looked up,
// the result is overwritten and extended in place — also into spare capacity —,
// a composite starting with the same entry is looked up, and then the first
// look-up is repeated: it must still give the listed text.
var ownershipShapes = []string{"%s", "%s_A", "%s.alt", "%s_%s"}

func ownershipBody(c *mc.Ctx, item int) mc.Verdict {
	ng, nd := len(tab.Glyph), len(tab.Dingbats)
	shape := ownershipShapes[item%len(ownershipShapes)]
	k := item / len(ownershipShapes)
	ding := k >= ng
	e := aglref.Entry{}
	if k < ng {
		e = tab.Glyph[k]
	} else {
		e = tab.Dingbats[k-ng]
	}
	_ = nd
	name := strings.ReplaceAll(shape, "%s", e.Name)
	const key = "C16:result-shared-with-internal-table"
	tolerated := strings.Contains(name, "commaaccent")
	ask := func(when string) ([]rune, *mc.Verdict) {
		got := names.ToUnicode(name, ding)
		c.Step()
		if want := tab.ToText(name, ding); !slices.Equal(got, want) && !tolerated {
			v := mc.Fail(key, fmt.Sprintf("ToUnicode(%q, %v) %s = %s, the lists say %s", name, ding, when, hexs(got), hexs(want)))
			return nil, &v
		}
		return got, nil
	}
	r1, bad := ask("(first look-up)")
	if bad != nil {
		return *bad
	}
	keep := slices.Clone(r1)
	for i := range r1 {
		r1[i] = 0xFFFD
	}
	if cap(r1) > len(r1) {
		r1[:cap(r1)][len(r1)] = 'X'
	}
	_ = append(r1, 'Y', 'Z')
	names.ToUnicode(e.Name+"_B_C", ding)
	names.ToUnicode(e.Name+"_"+e.Name, ding)
	r2, bad := ask("after the caller overwrote an earlier result")
	if bad != nil {
		return *bad
	}
	if !slices.Equal(r2, keep) {
		return mc.Fail(key, fmt.Sprintf("ToUnicode(%q, %v) gave %s, and %s after the caller overwrote the first result", name, ding, hexs(keep), hexs(r2)))
	}
	return mc.Pass("result-owned-by-caller", len(keep) > 0)
}

// longCompositeBody: names with many components (ToUnicode is not limited to
// names of valid length): n components, taken in rotation from the pool
// starting at its k-th entry, with and without a suffix.
var longCounts = []int{4, 5, 8, 15, 16, 17, 18, 31, 32, 33, 40, 64, 100, 255, 256, 257, 1000}

func longCompositeBody(c *mc.Ctx, item int) mc.Verdict {
	n := longCounts[item%len(longCounts)]
	rest := item / len(longCounts)
	start := rest % len(pool)
	suffix := []string{"", ".alt"}[rest/len(pool)]
	parts := make([]string, n)
	for i := range parts {
		parts[i] = pool[(start+i)%len(pool)].s
	}
	name := strings.Join(parts, "_") + suffix
	for _, ding := range []bool{false, true} {
		want := tab.ToText(name, ding)
		got := names.ToUnicode(name, ding)
		c.Step()
		if !slices.Equal(want, got) {
			k := 0
			for k < len(want) && k < len(got) && want[k] == got[k] {
				k++
			}
			v := mc.Fail("C16:composite:many-components", fmt.Sprintf("ToUnicode of a name with %d components (first %q, suffix %q, dingbats=%v) gives %d characters, the AGL specification %d; first difference at character %d", n, parts[0], suffix, ding, len(got), len(want), k))
			v.Render = fmt.Sprintf("%d components starting with %q", n, parts[0])
			return v
		}
	}
	return mc.Pass(fmt.Sprintf("%d-components", n), true)
}

func compositeCount(maxLen int) int {
	n, p := 0, 1
	for l := 1; l <= maxLen; l++ {
		p *= len(pool)
		n += p
	}
	return n * len(suffixes)
}

func decodeComposite(item int) (parts []int, suffix string) {
	suffix = suffixes[item%len(suffixes)]
	item /= len(suffixes)
	p := len(pool)
	for l := 1; ; l++ {
		if item < p {
			parts = make([]int, l)
			for k := l - 1; k >= 0; k-- {
				parts[k] = item % len(pool)
				item /= len(pool)
			}
			return
		}
		item -= p
		p *= len(pool)
	}
}

func compositeBody(c *mc.Ctx, item int) mc.Verdict {
	parts, suffix := decodeComposite(item)
	var ss []string
	for _, k := range parts {
		ss = append(ss, pool[k].s)
	}
	name := strings.Join(ss, "_") + suffix
	contributing := 0
	for _, ding := range []bool{false, true} {
		want := tab.ToText(name, ding)
		got := names.ToUnicode(name, ding)
		c.Step()
		if slices.Equal(want, got) {
			if !ding {
				for _, k := range parts {
					if len(tab.Component(pool[k].s, false)) > 0 {
						contributing++
					}
				}
			}
			continue
		}
		// Name the class of the failure: ask the library for every component
		// on its own.  If the composite is the concatenation of those answers,
		// splitting and suffix handling work and the component is to blame.
		var concat []rune
		blame, known := "", false
		for _, k := range parts {
			single := names.ToUnicode(pool[k].s, ding)
			c.Step()
			concat = append(concat, single...)
			if !slices.Equal(single, tab.Component(pool[k].s, ding)) {
				if pool[k].class == "multi-code-glyphlist-entry" && len(single) == 1 && single[0] == 0 {
					known = true // the class keyMultiCode stands for
				} else if blame == "" {
					blame = pool[k].class
				}
			}
		}
		key := "C16:composite:concatenation-or-suffix"
		if slices.Equal(concat, got) {
			switch {
			case blame != "":
				key = "C16:composite:component:" + blame
			case known:
				key = keyMultiCode
			}
		}
		v := mc.Fail(key, fmt.Sprintf("ToUnicode(%q, dingbats=%v) = %s, AGL specification: %s", name, ding, hexs(got), hexs(want)))
		v.Render = fmt.Sprintf("%q", name)
		return v
	}
	v := mc.Pass(fmt.Sprintf("%d-components/%d-contribute/suffixed=%v", len(parts), contributing, suffix != ""), contributing >= 2)
	if c.Render() {
		v.Render = fmt.Sprintf("ToUnicode(%q) = %s", name, hexs(tab.ToText(name, false)))
	}
	return v
}

// ------------------------------------------------------------------- IsValid

const validAlphabet = "AZaz09._ -@[`{/\xe9"

func validSpace(tier string) *space {
	maxLen := 3
	if tier == "thorough" {
		maxLen = 6
	}
	var segs []seg
	for l := 0; l <= maxLen; l++ {
		segs = append(segs, words("short-strings", fmt.Sprintf("all strings of length %d over %q", l, validAlphabet), "", validAlphabet, l))
	}
	var fills []string
	for _, f := range []struct{ first, rest string }{{"a", "a"}, {"_", "_"}, {"Z", "Z"}, {"a", "9"}, {"a", "."}, {"a", "_"}} {
		for l := 0; l <= 33; l++ {
			s := ""
			if l > 0 {
				s = f.first + strings.Repeat(f.rest, l-1)
			}
			fills = append(fills, s)
		}
	}
	segs = append(segs, list("lengths", "lengths 0-33: fills a, _, Z, a9.., a...., a___", fills))
	special := []string{".notdef", ".notde", ".notdeff", "notdef", ".Notdef", ".NOTDEF", ".notdef.", ".notdef ", " .notdef", "a.notdef", ".null", "..notdef", ".notdef\x00",
		strings.Repeat("a", 30) + "\xc3\xa9", strings.Repeat("a", 29) + "\xc3\xa9", "\xc3\xa9", "aé", "A\xff", "a\x00", "a\n", "a\tb", "a b", "Aacute.sc", "f_f_i", "uni20AC0308", "_", "__", "a_", "_1", "_.", "A.", "A..", "é", "ａ"}
	segs = append(segs, list("special", ".notdef, its neighbours, non-ASCII and control bytes", special))
	var tn []string
	for _, e := range tab.Glyph {
		tn = append(tn, e.Name)
	}
	for _, e := range tab.Dingbats {
		tn = append(tn, e.Name)
	}
	for _, e := range tab.AGLFN {
		tn = append(tn, e.Name)
	}
	segs = append(segs, list("list-names", "every name in the three Adobe lists", tn))
	// every Unicode scalar value inside an otherwise valid name (case folding
	// and Unicode character classes must not widen the alphabet), and the
	// values below U+3000 also as first and as last character
	var uni []string
	for r := rune(0); r <= 0x10FFFF; r++ {
		if r >= 0xD800 && r <= 0xDFFF {
			continue
		}
		uni = append(uni, "x"+string(r)+"y")
		if r < 0x3000 {
			uni = append(uni, string(r)+"x", "x"+string(r))
		}
	}
	segs = append(segs, list("every-scalar-value", "x?y for every Unicode scalar value ?, and ?x, x? for the values below U+3000", uni))
	return newSpace(segs...)
}

func validBody(sp *space) func(c *mc.Ctx, item int) mc.Verdict {
	return func(c *mc.Ctx, item int) mc.Verdict {
		_, s := sp.at(item)
		why := aglref.WhyInvalid(s)
		got := names.IsValid(s)
		c.Step()
		if got != (why == "") {
			key := "C16:isvalid:accepts:" + why
			exp := "invalid (" + why + ")"
			if why == "" {
				key = "C16:isvalid:rejects-allowed-name"
				if s == ".notdef" {
					key = "C16:isvalid:rejects-.notdef"
				}
				exp = "valid"
			}
			v := mc.Fail(key, fmt.Sprintf("IsValid(%q) = %v (length %d), specification: %s", s, got, len(s), exp))
			v.Render = fmt.Sprintf("%q", s)
			return v
		}
		cls := "invalid:" + why
		if why == "" {
			cls = "valid"
			if s == ".notdef" {
				cls = "valid:.notdef"
			}
		}
		v := mc.Pass(cls, s != "")
		if c.Render() {
			v.Render = fmt.Sprintf("IsValid(%q) = %v", s, got)
		}
		return v
	}
}

// ----------------------------------------------------------------------- main

// firstCallBody: the answer to a look-up does not depend on whether it is the
// first look-up the process ever makes (the tables are loaded lazily): each
// item runs in a child process whose very first library call is that look-up.
type firstCall struct {
	name string
	ding bool
	r    rune // > 0: FromUnicode(r) followed by ToUnicode of the result
}

func firstCalls() []firstCall {
	var out []firstCall
	for _, e := range tab.Glyph {
		if len(e.Text) > 1 {
			out = append(out, firstCall{name: e.Name}) // every entry that denotes several characters
		}
	}
	for _, n := range []string{"A", "space", "Lcommaaccent", "a7", "a100", "uni0041", "uni00410042", "u1F600", "A_B", "dalethatafpatah_A", "A_dalethatafpatah", "lamedholamdagesh.alt", "f_f_i.alt", "nosuchname", ".notdef", "Tcommaaccent"} {
		out = append(out, firstCall{name: n}, firstCall{name: n, ding: true})
	}
	for _, r := range []rune{'A', 0x2026, 0xFB01, 0x05D3, 0x10FFFF, 0x1F600, 0x0162, 0x021A, 0xE000} {
		out = append(out, firstCall{r: r})
	}
	return out
}

func firstCallChild(args []string) {
	if args[0] == "from" {
		v, _ := strconv.ParseInt(args[1], 10, 32)
		n := names.FromUnicode(rune(v))
		fmt.Printf("%q %v\n", n, names.ToUnicode(n, false))
		return
	}
	fmt.Printf("%v\n", names.ToUnicode(args[1], args[2] == "true"))
}

func firstCallBody(calls []firstCall) func(c *mc.Ctx, item int) mc.Verdict {
	return func(c *mc.Ctx, item int) mc.Verdict {
		fc := calls[item]
		exe, err := os.Executable()
		if err != nil {
			return mc.Fail("C16:HARNESS:first-call", err.Error())
		}
		var cmd *exec.Cmd
		var want, what string
		if fc.r > 0 {
			cmd = exec.Command(exe, "-firstcall", "from", strconv.Itoa(int(fc.r)))
			n := names.FromUnicode(fc.r)
			want = fmt.Sprintf("%q %v\n", n, names.ToUnicode(n, false))
			what = fmt.Sprintf("FromUnicode(U+%04X) and ToUnicode of its result", fc.r)
			// (the warm worker's own answer is checked against the lists by the other families)
		} else {
			cmd = exec.Command(exe, "-firstcall", "to", fc.name, strconv.FormatBool(fc.ding))
			w := tab.ToText(fc.name, fc.ding)
			if strings.Contains(fc.name, "commaaccent") {
				w = names.ToUnicode(fc.name, fc.ding) // documented deviation, see assumptions
			}
			want = fmt.Sprintf("%v\n", w)
			what = fmt.Sprintf("ToUnicode(%q, %v)", fc.name, fc.ding)
		}
		out, err := cmd.Output()
		c.Step()
		if err != nil {
			return mc.Fail("C16:first-call:child-died", what+" as the first call of a process: "+err.Error())
		}
		if string(out) != want {
			v := mc.Fail("C16:first-call:differs", fmt.Sprintf("%s as the first library call of a fresh process gives %s, expected %s", what, strings.TrimSpace(string(out)), strings.TrimSpace(want)))
			v.Render = what
			return v
		}
		return mc.Pass("first-call-ok", true)
	}
}

func main() {
	if len(os.Args) > 1 && os.Args[1] == "-firstcall" {
		firstCallChild(os.Args[2:])
		return
	}
	mc.Main(mc.Program{
		Property: "C16",
		Assumptions: []string{
			"the Adobe lists are those in " + filepath.Join(repoDir(), "type1/names/agl-aglfn") + " (read at run time by the reference; the library embeds the same files at build time)",
			"'documented compatibility expansion' = the table literal in type1/names/compat.go, read as text; for a listed character both {r} and the listed expansion are accepted, for all others only {r}",
			"Tcommaaccent/tcommaaccent: the list says 0162/0163, the library deliberately returns 021A/021B (names.go getFile, 'fix up some swapped character codes'); either value is accepted for these two names only and the deviation is counted under outcome 'tolerated:Tcommaaccent-fixup'",
			"FromUnicode is only required to round-trip; which name it picks (AGLFN or other) is recorded, not demanded",
			"name length in IsValid is counted in bytes (equal to characters for every allowed name)",
		},
		TrustedBase: []string{"verif/model/aglref (list parser, AGL name->text algorithm, validity grammar)", "Go maps and strings", "fmt %X formatting used to write uni/u names"},
		Explanation: "C16 families have no choice points: one execution = one input (scalar value, list entry, or name; names are asked with dingbats=false and =true inside the same execution). The injectivity family is a single execution holding all 1,112,064 names in one map.",
		Families: func(tier string) []mc.Family {
			load()
			uni, u, val := uniSpace(tier), uSpace(tier), validSpace(tier)
			maxComp := 3
			if tier == "thorough" {
				maxComp = 4
			}
			ng, nd, nf := len(tab.Glyph), len(tab.Dingbats), len(tab.AGLFN)
			multi := 0
			for _, e := range tab.Glyph {
				if len(e.Text) > 1 {
					multi++
				}
			}
			var poolNames []string
			for _, p := range pool {
				poolNames = append(poolNames, p.s)
			}
			return []mc.Family{
				{
					Name:     "scalar-roundtrip",
					Items:    numScalars,
					Body:     roundTripBody,
					Rule:     fmt.Sprintf("item = each of the %d Unicode scalar values r (0-D7FF, E000-10FFFF): ToUnicode(FromUnicode(r), false) must be {r} or, for the %d characters listed in compat.go, the listed expansion; non-trivial = the chosen name is non-empty", numScalars, len(compat)),
					Describe: func(i int) string { return fmt.Sprintf("U+%04X", scalar(i)) },
					CrashKey: func(int) string { return "C16:crash:scalar-roundtrip" },
				},
				{
					Name:     "scalar-injectivity",
					Items:    1,
					Body:     injectivityBody,
					Rule:     fmt.Sprintf("one execution: FromUnicode for all %d scalar values collected in one map name -> character; any name met twice is a violation; non-trivial = number of distinct names equals number of scalar values", numScalars),
					Describe: func(int) string { return "FromUnicode over all scalar values" },
					CrashKey: func(int) string { return "C16:crash:scalar-injectivity" },
				},
				{
					Name:     "table-entries",
					Items:    2*(ng+nd) + nf,
					Body:     tableBody,
					Rule:     fmt.Sprintf("item = every entry of glyphlist.txt (%d, of which %d list several code points) and zapfdingbats.txt (%d), each with dingbats=false and =true, compared with the listed text (where the list applies) and aglref; every entry of aglfn.txt (%d): ToUnicode(name) = listed UV and FromUnicode(UV) round-trips; non-trivial = library returned non-empty text", ng, multi, nd, nf),
					Describe: func(i int) string { return fmt.Sprintf("table item %d", i) },
					CrashKey: func(int) string { return "C16:crash:table-entries" },
				},
				{
					Name:     "results-owned-by-caller",
					Items:    (ng + nd) * len(ownershipShapes),
					Body:     ownershipBody,
					Rule:     fmt.Sprintf("item = every entry of glyphlist.txt (%d) and zapfdingbats.txt (%d) x name shape {entry, entry_A, entry.alt, entry_entry}: look the name up, overwrite the returned slice in place (every element, the first slot of spare capacity, an append), look up two composites that start with the entry, look the name up again: both look-ups must give the listed text; non-trivial = non-empty text", ng, nd),
					Describe: func(i int) string { return fmt.Sprintf("ownership item %d", i) },
					CrashKey: func(int) string { return "C16:crash:ownership" },
				},
				{
					Name:     "uni-forms",
					Items:    uni.size(),
					Body:     formBody("uni", uni),
					Rule:     "item = one name, asked with both dingbats flags, compared with aglref.ToText: " + uni.rule() + "; non-trivial = the specification maps the name to at least one character",
					Describe: func(i int) string { _, s := uni.at(i); return fmt.Sprintf("%q", s) },
					CrashKey: func(int) string { return "C16:crash:uni-forms" },
				},
				{
					Name:     "u-forms",
					Items:    u.size(),
					Body:     formBody("u", u),
					Rule:     "item = one name, asked with both dingbats flags, compared with aglref.ToText: " + u.rule() + "; non-trivial = the specification maps the name to a character",
					Describe: func(i int) string { _, s := u.at(i); return fmt.Sprintf("%q", s) },
					CrashKey: func(int) string { return "C16:crash:u-forms" },
				},
				{
					Name:     "composites",
					Items:    compositeCount(maxComp),
					Body:     compositeBody,
					Rule:     fmt.Sprintf("item = every sequence of 1..%d components from the pool %q joined by '_' x suffix in %q, asked with both dingbats flags, compared with aglref.ToText; non-trivial = at least two components contribute text", maxComp, poolNames, suffixes),
					Describe: func(i int) string { p, s := decodeComposite(i); return fmt.Sprintf("components %v suffix %q", p, s) },
					CrashKey: func(int) string { return "C16:crash:composites" },
				},
				{
					Name:     "first-call-in-a-fresh-process",
					Items:    len(firstCalls()),
					Body:     firstCallBody(firstCalls()),
					Rule:     fmt.Sprintf("%d look-ups, each made as the very first library call of a child process of its own (the glyph tables are loaded on first use): every glyph-list entry that denotes several characters, 16 other names of every kind with both dingbats flags, FromUnicode for 9 characters; the answer must be the one the lists prescribe; non-trivial = all", len(firstCalls())),
					Describe: func(i int) string { return fmt.Sprintf("first call %d", i) },
					CrashKey: func(int) string { return "C16:crash:first-call" },
				},
				{
					Name:     "long-composites",
					Items:    len(longCounts) * len(pool) * 2,
					Body:     longCompositeBody,
					Rule:     fmt.Sprintf("item = number of components in %v x rotation of the component pool (%d starting points) x suffix {none, .alt}: the name is the pool taken in rotation and joined by '_', asked with both dingbats flags, compared with aglref.ToText; non-trivial = all", longCounts, len(pool)),
					Describe: func(i int) string { return fmt.Sprintf("%d components", longCounts[i%len(longCounts)]) },
					CrashKey: func(int) string { return "C16:crash:long-composites" },
				},
				{
					Name:     "isvalid",
					Items:    val.size(),
					Body:     validBody(val),
					Rule:     "item = one string, IsValid compared with the grammar (1-31 characters from A-Z a-z 0-9 . _, first not digit or period, plus .notdef): " + val.rule() + "; non-trivial = string is non-empty",
					Describe: func(i int) string { _, s := val.at(i); return fmt.Sprintf("%q", s) },
					CrashKey: func(int) string { return "C16:crash:isvalid" },
				},
			}
		},
	})
}
