// Package env contains the environment side of the closed systems: readers
// and writers whose every answer is decided by the explorer.
package env

import (
	"errors"
	"io"
)

// ErrInjected is the sentinel fault.
var ErrInjected = errors.New("verif: injected I/O fault")

// Source is an io.Reader over Data whose delivery is decided call by call.
type Source struct {
	Data []byte
	Pos  int
	// Decide is asked on every Read with the number of bytes requested and
	// remaining (both > 0); it returns how many bytes to deliver (1..min; -1 =
	// return (0, nil) and deliver nothing in this call) and whether to report
	// io.EOF together with the last bytes.  nil = deliver
	// min(requested, remaining), EOF only on the following call.
	Decide func(call, want, remaining int) (n int, eofWithData bool)
	// FailAt >= 0 makes the read that would deliver byte FailAt fail with
	// FailErr instead (bytes before FailAt are still delivered first).
	FailAt  int
	FailErr error
	// FailWithData: the fault is reported by the same call that delivers the
	// last bytes before FailAt (n > 0 together with the error), as io.Reader
	// permits.  FailOnce: the fault is transient — it is reported exactly once,
	// later calls deliver the rest of the data as if nothing had happened.
	FailWithData bool
	FailOnce     bool
	Calls        int
	// CallsAfterFault counts Read calls made after the fault was reported.
	CallsAfterFault int
	failed          bool
	reported        bool
}

// NewSource returns a source that delivers everything the caller asks for.
func NewSource(data []byte) *Source {
	return &Source{Data: data, FailAt: -1}
}

func (s *Source) Read(p []byte) (int, error) {
	if s.reported {
		s.CallsAfterFault++
	}
	if s.failed && !s.FailOnce {
		return 0, s.FailErr
	}
	if len(p) == 0 {
		return 0, nil
	}
	call := s.Calls
	s.Calls++
	limit := len(s.Data)
	if s.FailAt >= 0 && s.FailAt < limit && !s.reported {
		limit = s.FailAt
	}
	remaining := limit - s.Pos
	if remaining <= 0 {
		if s.FailAt >= 0 && !s.reported {
			s.failed, s.reported = true, true
			return 0, s.FailErr
		}
		return 0, io.EOF
	}
	want := len(p)
	if want > remaining {
		want = remaining
	}
	n := want
	eof := false
	if s.Decide != nil {
		n, eof = s.Decide(call, len(p), remaining)
		if n == -1 {
			// an empty read without error: permitted by io.Reader (if discouraged)
			return 0, nil
		}
		if n < 1 {
			n = 1
		}
		if n > want {
			n = want
		}
	}
	copy(p, s.Data[s.Pos:s.Pos+n])
	s.Pos += n
	if s.FailWithData && s.FailAt >= 0 && !s.reported && s.Pos == limit && limit == s.FailAt {
		s.failed, s.reported = true, true
		return n, s.FailErr
	}
	if eof && s.Pos == len(s.Data) && (s.FailAt < 0 || s.reported) {
		return n, io.EOF
	}
	return n, nil
}

// SeekSource adds Seek to a Source (always delivering in full).
type SeekSource struct {
	*Source
}

func (s SeekSource) Seek(off int64, whence int) (int64, error) {
	var abs int64
	switch whence {
	case io.SeekStart:
		abs = off
	case io.SeekCurrent:
		abs = int64(s.Pos) + off
	case io.SeekEnd:
		abs = int64(len(s.Data)) + off
	}
	if abs < 0 {
		return 0, errors.New("negative position")
	}
	s.Pos = int(abs)
	return abs, nil
}

// FaultWriter is an io.Writer that fails according to its configuration.
type FaultWriter struct {
	Buf []byte
	// FailCall >= 0: exactly the call with this index fails (transient: later
	// calls succeed again), writing nothing.
	FailCall int
	// Limit >= 0: only the first Limit bytes in total are accepted; the write
	// that crosses the limit is short and fails, and so do all later ones.
	Limit int
	// LimitOnce: the short write at Limit is reported once; later calls are
	// accepted in full again (a transient fault in the middle of a chunk).
	LimitOnce bool
	limitHit  bool
	// FullCount: the failing call (FailCall) accepts all its bytes and reports
	// the error together with n == len(p), as a forwarding or buffering writer
	// does that took the data and failed to pass it on.
	FullCount bool
	Calls     int
	Err       error
}

func NewFaultWriter() *FaultWriter {
	return &FaultWriter{FailCall: -1, Limit: -1, Err: ErrInjected}
}

func (w *FaultWriter) Write(p []byte) (int, error) {
	call := w.Calls
	w.Calls++
	if call == w.FailCall {
		if w.FullCount {
			w.Buf = append(w.Buf, p...)
			return len(p), w.Err
		}
		return 0, w.Err
	}
	if w.Limit >= 0 && !(w.LimitOnce && w.limitHit) {
		room := w.Limit - len(w.Buf)
		if room < len(p) {
			w.limitHit = true
			if room < 0 {
				room = 0
			}
			w.Buf = append(w.Buf, p[:room]...)
			return room, w.Err
		}
	}
	w.Buf = append(w.Buf, p...)
	return len(p), nil
}

// Faulted reports whether the injected read fault was delivered to the caller.
func (s *Source) Faulted() bool { return s.failed }
