// instrument generates go-build overlays from /repo's current working tree:
//
//	-mode maporder  every range over a map and every x/exp/maps.Keys/Values call
//	                iterates in an order chosen through zzverifrt.OrderHook
//	-mode sync      in packages that import "sync": the import is redirected to
//	                the zzverifrt shim (scheduler-aware Mutex/RWMutex/Once), and
//	                every access to a field living next to a lock and every map
//	                index/range/len/delete in the package goes through
//	                zzverifrt.RP/WP/RM/WM (scheduling point + happens-before
//	                race detection)
//	-mode clock     time.Now / time.Since / time.Until go through zzverifrt, where
//	                the explorer decides what time it is (zzverifrt.ClockHook)
//	-mode globals   adds VerifGlobals() to every package: pointers to all
//	                package-level variables
//	-mode pkgvars   every use of a package-level variable of the repository goes
//	                through zzverifrt.RP (read) or WP (assignment to it or to
//	                anything reached through it, ++/--, address taken, pointer-
//	                receiver method called on it)
//
// Modes can be combined (comma separated).  -replace rel=file loads the named
// repository file from another path (used to instrument mutated sources).
package main

import (
	"bytes"
	"encoding/json"
	"flag"
	"fmt"
	"go/ast"
	"go/format"
	"go/token"
	"go/types"
	"os"
	"path/filepath"
	"sort"
	"strings"

	"golang.org/x/tools/go/ast/astutil"
	"golang.org/x/tools/go/packages"
)

const rtPath = "seehuhn.de/go/postscript/zzverifrt"

type multi []string

func (m *multi) String() string     { return strings.Join(*m, ",") }
func (m *multi) Set(s string) error { *m = append(*m, s); return nil }

func main() {
	var (
		mode    = flag.String("mode", "maporder", "maporder,sync,globals,pkgvars,clock")
		out     = flag.String("out", "", "overlay json to write")
		gen     = flag.String("gen", "", "directory for generated files")
		rt      = flag.String("rt", "", "source file of the zzverifrt package")
		repo    = flag.String("repo", "/repo", "repository root")
		report  = flag.String("report", "", "site report to write (json)")
		replace multi
	)
	flag.Var(&replace, "replace", "rel=file: read repository file rel from file")
	flag.Parse()
	modes := map[string]bool{}
	for _, m := range strings.Split(*mode, ",") {
		modes[m] = true
	}
	if *out == "" || *gen == "" || *rt == "" {
		fmt.Fprintln(os.Stderr, "need -out, -gen, -rt")
		os.Exit(2)
	}
	os.RemoveAll(*gen)
	os.MkdirAll(*gen, 0o755)

	overlayIn := map[string][]byte{}
	replaced := map[string]string{}
	for _, r := range replace {
		rel, file, ok := strings.Cut(r, "=")
		if !ok {
			fmt.Fprintln(os.Stderr, "bad -replace", r)
			os.Exit(2)
		}
		b, err := os.ReadFile(file)
		if err != nil {
			fmt.Fprintln(os.Stderr, err)
			os.Exit(2)
		}
		overlayIn[filepath.Join(*repo, rel)] = b
		replaced[filepath.Join(*repo, rel)] = file
	}
	cfg := &packages.Config{
		Mode:    packages.NeedName | packages.NeedFiles | packages.NeedCompiledGoFiles | packages.NeedSyntax | packages.NeedTypes | packages.NeedTypesInfo | packages.NeedImports,
		Dir:     *repo,
		Overlay: overlayIn,
		Env:     append(os.Environ(), "GOFLAGS=-mod=mod", "GOPROXY=off", "GOSUMDB=off"),
	}
	pkgs, err := packages.Load(cfg, "./...")
	if err != nil {
		fmt.Fprintln(os.Stderr, err)
		os.Exit(1)
	}
	over := map[string]string{}
	for abs, file := range replaced {
		over[abs] = file // plain replacement unless instrumented below
	}
	var sites []string
	sort.Slice(pkgs, func(i, j int) bool { return pkgs[i].PkgPath < pkgs[j].PkgPath })
	for _, p := range pkgs {
		if len(p.Errors) > 0 {
			fmt.Fprintln(os.Stderr, "package", p.PkgPath, "has errors:", p.Errors)
			os.Exit(1)
		}
		if strings.Contains(p.PkgPath, "/examples/") {
			continue
		}
		in := &instr{pkg: p, modes: modes}
		in.prepare()
		for i, f := range p.Syntax {
			name := p.CompiledGoFiles[i]
			changed := false
			if modes["maporder"] {
				changed = in.mapOrder(f) || changed
			}
			if modes["pkgvars"] {
				changed = in.pkgVars(f) || changed
			}
			if modes["clock"] {
				changed = in.clock(f) || changed
			}
			if modes["sync"] && in.usesSync {
				changed = in.syncShim(f) || changed
			}
			if !changed {
				continue
			}
			// the redirected sync import is named "sync"; the runtime needs its own
			// import only where a generated call refers to it
			usesRT := false
			ast.Inspect(f, func(n ast.Node) bool {
				if sel, ok := n.(*ast.SelectorExpr); ok {
					if id, ok := sel.X.(*ast.Ident); ok && id.Name == "zzverifrt" {
						usesRT = true
					}
				}
				return !usesRT
			})
			if usesRT {
				astutil.AddImport(p.Fset, f, rtPath)
			}
			for _, path := range []string{"golang.org/x/exp/maps", "maps"} {
				if !astutil.UsesImport(f, path) {
					astutil.DeleteImport(p.Fset, f, path)
				}
			}
			var buf bytes.Buffer
			if err := format.Node(&buf, p.Fset, f); err != nil {
				fmt.Fprintln(os.Stderr, "format", name, err)
				os.Exit(1)
			}
			rel, _ := filepath.Rel(*repo, name)
			dst := filepath.Join(*gen, strings.ReplaceAll(rel, "/", "__"))
			if err := os.WriteFile(dst, buf.Bytes(), 0o644); err != nil {
				fmt.Fprintln(os.Stderr, err)
				os.Exit(1)
			}
			abs, _ := filepath.Abs(dst)
			over[name] = abs
		}
		sites = append(sites, in.sites...)
		if modes["globals"] {
			src := in.globalsFile()
			dir := filepath.Dir(p.CompiledGoFiles[0])
			rel, _ := filepath.Rel(*repo, dir)
			dst := filepath.Join(*gen, strings.ReplaceAll(rel, "/", "__")+"__zz_verif_globals.go")
			os.WriteFile(dst, []byte(src), 0o644)
			abs, _ := filepath.Abs(dst)
			over[filepath.Join(dir, "zz_verif_globals.go")] = abs
		}
	}
	rtAbs, _ := filepath.Abs(*rt)
	over[filepath.Join(*repo, "zzverifrt", "rt.go")] = rtAbs
	b, _ := json.MarshalIndent(map[string]any{"Replace": over}, "", " ")
	if err := os.WriteFile(*out, b, 0o644); err != nil {
		fmt.Fprintln(os.Stderr, err)
		os.Exit(1)
	}
	if *report != "" {
		sort.Strings(sites)
		rb, _ := json.MarshalIndent(sites, "", " ")
		os.WriteFile(*report, rb, 0o644)
	}
	fmt.Printf("instrumented %d sites in %d files\n", len(sites), len(over)-1-len(replaced))
}

type instr struct {
	pkg      *packages.Package
	modes    map[string]bool
	usesSync bool
	guarded  map[*types.Var]bool // fields living next to a lock
	sites    []string
	n        int
}

func (in *instr) prepare() {
	in.guarded = map[*types.Var]bool{}
	for _, imp := range in.pkg.Types.Imports() {
		if imp.Path() == "sync" {
			in.usesSync = true
		}
	}
	if !in.usesSync {
		return
	}
	scope := in.pkg.Types.Scope()
	for _, name := range scope.Names() {
		tn, ok := scope.Lookup(name).(*types.TypeName)
		if !ok {
			continue
		}
		st, ok := tn.Type().Underlying().(*types.Struct)
		if !ok {
			continue
		}
		hasLock := false
		for i := 0; i < st.NumFields(); i++ {
			if isLockType(st.Field(i).Type()) {
				hasLock = true
			}
		}
		if !hasLock {
			continue
		}
		for i := 0; i < st.NumFields(); i++ {
			if !isLockType(st.Field(i).Type()) {
				in.guarded[st.Field(i)] = true
			}
		}
	}
}

func isLockType(t types.Type) bool {
	n, ok := t.(*types.Named)
	if !ok || n.Obj().Pkg() == nil {
		return false
	}
	return n.Obj().Pkg().Path() == "sync" && (n.Obj().Name() == "Mutex" || n.Obj().Name() == "RWMutex" || n.Obj().Name() == "Once")
}

func (in *instr) site(pos token.Pos, what string) string {
	p := in.pkg.Fset.Position(pos)
	rel := p.Filename
	if i := strings.Index(rel, "/repo/"); i >= 0 {
		rel = rel[i+6:]
	}
	s := fmt.Sprintf("%s:%d:%s", rel, p.Line, what)
	in.sites = append(in.sites, s)
	return s
}

func rtCall(fn string, args ...ast.Expr) *ast.CallExpr {
	return &ast.CallExpr{Fun: &ast.SelectorExpr{X: ast.NewIdent("zzverifrt"), Sel: ast.NewIdent(fn)}, Args: args}
}

func strLit(s string) *ast.BasicLit {
	return &ast.BasicLit{Kind: token.STRING, Value: fmt.Sprintf("%q", s)}
}

func isPure(e ast.Expr) bool {
	switch e := e.(type) {
	case *ast.Ident:
		return true
	case *ast.SelectorExpr:
		return isPure(e.X)
	case *ast.ParenExpr:
		return isPure(e.X)
	case *ast.StarExpr:
		return isPure(e.X)
	}
	return false
}

func isBlank(e ast.Expr) bool {
	if e == nil {
		return true
	}
	id, ok := e.(*ast.Ident)
	return ok && id.Name == "_"
}

// mapOrder rewrites map iteration sites.
func (in *instr) mapOrder(f *ast.File) bool {
	changed := false
	info := in.pkg.TypesInfo
	astutil.Apply(f, func(c *astutil.Cursor) bool {
		switch n := c.Node().(type) {
		case *ast.RangeStmt:
			t := info.TypeOf(n.X)
			if t == nil {
				return true
			}
			if _, ok := t.Underlying().(*types.Map); !ok {
				return true
			}
			if !isPure(n.X) {
				fmt.Fprintf(os.Stderr, "maporder: range over impure map expression at %s is not supported\n", in.pkg.Fset.Position(n.Pos()))
				os.Exit(1)
			}
			in.n++
			kv := ast.NewIdent(fmt.Sprintf("zzk%d", in.n))
			site := in.site(n.Pos(), "range")
			var pre []ast.Stmt
			// skip entries deleted during the iteration (as the runtime does)
			pre = append(pre, &ast.IfStmt{
				Init: &ast.AssignStmt{Lhs: []ast.Expr{ast.NewIdent("_"), ast.NewIdent("zzok")}, Tok: token.DEFINE, Rhs: []ast.Expr{&ast.IndexExpr{X: n.X, Index: kv}}},
				Cond: &ast.UnaryExpr{Op: token.NOT, X: ast.NewIdent("zzok")},
				Body: &ast.BlockStmt{List: []ast.Stmt{&ast.BranchStmt{Tok: token.CONTINUE}}},
			})
			tok := n.Tok
			if tok == token.ILLEGAL {
				tok = token.DEFINE
			}
			if !isBlank(n.Key) {
				pre = append(pre, &ast.AssignStmt{Lhs: []ast.Expr{n.Key}, Tok: tok, Rhs: []ast.Expr{kv}})
			}
			if !isBlank(n.Value) {
				pre = append(pre, &ast.AssignStmt{Lhs: []ast.Expr{n.Value}, Tok: tok, Rhs: []ast.Expr{&ast.IndexExpr{X: n.X, Index: kv}}})
			}
			n.Body.List = append(pre, n.Body.List...)
			n.Key = ast.NewIdent("_")
			n.Value = kv
			n.Tok = token.DEFINE
			n.X = rtCall("Keys", n.X, strLit(site))
			changed = true
		case *ast.CallExpr:
			sel, ok := n.Fun.(*ast.SelectorExpr)
			if !ok {
				return true
			}
			id, ok := sel.X.(*ast.Ident)
			if !ok {
				return true
			}
			pn, ok := info.Uses[id].(*types.PkgName)
			if !ok {
				return true
			}
			path := pn.Imported().Path()
			if path == "golang.org/x/exp/maps" && (sel.Sel.Name == "Keys" || sel.Sel.Name == "Values") {
				site := in.site(n.Pos(), "maps."+sel.Sel.Name)
				n.Fun = &ast.SelectorExpr{X: ast.NewIdent("zzverifrt"), Sel: ast.NewIdent(sel.Sel.Name)}
				n.Args = append(n.Args, strLit(site))
				changed = true
			} else if path == "maps" && (sel.Sel.Name == "Keys" || sel.Sel.Name == "Values" || sel.Sel.Name == "All") {
				fmt.Fprintf(os.Stderr, "maporder: std maps.%s at %s is not supported\n", sel.Sel.Name, in.pkg.Fset.Position(n.Pos()))
				os.Exit(1)
			}
		}
		return true
	}, nil)
	return changed
}

// syncShim redirects the sync import and hooks guarded accesses.
func (in *instr) syncShim(f *ast.File) bool {
	info := in.pkg.TypesInfo
	usesSync := false
	for _, imp := range f.Imports {
		if imp.Path.Value == `"sync"` {
			usesSync = true
			imp.Path.Value = fmt.Sprintf("%q", rtPath)
			imp.Name = ast.NewIdent("sync")
		}
	}
	changed := usesSync
	// collect write contexts
	writes := map[ast.Expr]bool{}
	ast.Inspect(f, func(n ast.Node) bool {
		switch n := n.(type) {
		case *ast.AssignStmt:
			for _, l := range n.Lhs {
				writes[unparen(l)] = true
			}
		case *ast.IncDecStmt:
			writes[unparen(n.X)] = true
		case *ast.UnaryExpr:
			if n.Op == token.AND {
				writes[unparen(n.X)] = true
			}
		}
		return true
	})
	skip := map[ast.Node]bool{}
	astutil.Apply(f, func(c *astutil.Cursor) bool {
		n := c.Node()
		if skip[n] {
			return false
		}
		switch n := n.(type) {
		case *ast.IndexExpr:
			t := info.TypeOf(n.X)
			if t == nil {
				return true
			}
			if _, ok := t.Underlying().(*types.Map); !ok {
				return true
			}
			fn := "RM"
			if writes[n] {
				fn = "WM"
			}
			site := in.site(n.Pos(), "map-"+fn)
			n.X = rtCall(fn, n.X, strLit(site))
			changed = true
			// the wrapped expression is still visited (a guarded field inside it)
		case *ast.RangeStmt:
			t := info.TypeOf(n.X)
			if t != nil {
				if _, ok := t.Underlying().(*types.Map); ok {
					site := in.site(n.Pos(), "map-range")
					n.X = rtCall("RM", n.X, strLit(site))
					changed = true
				}
			}
		case *ast.CallExpr:
			if id, ok := n.Fun.(*ast.Ident); ok && len(n.Args) >= 1 {
				t := info.TypeOf(n.Args[0])
				if t != nil {
					if _, ok := t.Underlying().(*types.Map); ok {
						switch id.Name {
						case "len":
							n.Args[0] = rtCall("RM", n.Args[0], strLit(in.site(n.Pos(), "map-len")))
							changed = true
						case "delete":
							n.Args[0] = rtCall("WM", n.Args[0], strLit(in.site(n.Pos(), "map-delete")))
							changed = true
						}
					}
				}
			}
		case *ast.SelectorExpr:
			sel := info.Selections[n]
			if sel == nil || sel.Kind() != types.FieldVal {
				return true
			}
			v, ok := sel.Obj().(*types.Var)
			if !ok || !in.guarded[v] {
				return true
			}
			fn := "RP"
			if writes[n] {
				fn = "WP"
			}
			site := in.site(n.Pos(), "field-"+fn+"-"+v.Name())
			repl := &ast.ParenExpr{X: &ast.StarExpr{X: rtCall(fn, &ast.UnaryExpr{Op: token.AND, X: n}, strLit(site))}}
			skip[n] = true
			c.Replace(repl)
			changed = true
		}
		return true
	}, nil)
	return changed
}

// pkgVars hooks every use of a package-level variable of the repository:
// reads become (*zzverifrt.RP(&v, site)), writes (assignment to the variable or
// to anything reached through it, ++/--, taking its address) become
// (*zzverifrt.WP(&v, site)).  Operands of len/cap are left alone (they may be
// constant expressions).
func (in *instr) pkgVars(f *ast.File) bool {
	info := in.pkg.TypesInfo
	isPkgVar := func(id *ast.Ident) *types.Var {
		v, ok := info.Uses[id].(*types.Var)
		if !ok || v.IsField() || v.Pkg() == nil || v.Parent() != v.Pkg().Scope() {
			return nil
		}
		if !strings.HasPrefix(v.Pkg().Path(), "seehuhn.de/go/postscript") {
			return nil
		}
		return v
	}
	// qualified returns the variable a pkg.Name selector denotes
	qualified := func(sel *ast.SelectorExpr) *types.Var {
		x, ok := sel.X.(*ast.Ident)
		if !ok {
			return nil
		}
		if _, ok := info.Uses[x].(*types.PkgName); !ok {
			return nil
		}
		return isPkgVar(sel.Sel)
	}
	writeRoot := map[ast.Node]bool{}
	var markRoot func(e ast.Expr)
	markRoot = func(e ast.Expr) {
		switch e := e.(type) {
		case *ast.ParenExpr:
			markRoot(e.X)
		case *ast.SelectorExpr:
			if qualified(e) != nil {
				writeRoot[e] = true
				return
			}
			markRoot(e.X)
		case *ast.IndexExpr:
			markRoot(e.X)
		case *ast.SliceExpr:
			markRoot(e.X)
		case *ast.StarExpr:
			markRoot(e.X)
		case *ast.Ident:
			writeRoot[e] = true
		}
	}
	noHook := map[ast.Node]bool{}
	ast.Inspect(f, func(n ast.Node) bool {
		switch n := n.(type) {
		case *ast.AssignStmt:
			if n.Tok != token.DEFINE {
				for _, l := range n.Lhs {
					markRoot(l)
				}
			}
		case *ast.IncDecStmt:
			markRoot(n.X)
		case *ast.UnaryExpr:
			if n.Op == token.AND {
				markRoot(n.X)
			}
		case *ast.CallExpr:
			if id, ok := n.Fun.(*ast.Ident); ok && (id.Name == "len" || id.Name == "cap") && len(n.Args) == 1 {
				if _, isBuiltin := info.Uses[id].(*types.Builtin); isBuiltin {
					noHook[unparen(n.Args[0])] = true
				}
			}
			// v.M() with a pointer-receiver method on an addressable value takes &v
			if fun, ok := n.Fun.(*ast.SelectorExpr); ok {
				if sel := info.Selections[fun]; sel != nil && sel.Kind() == types.MethodVal {
					if sig, ok := sel.Obj().Type().(*types.Signature); ok && sig.Recv() != nil {
						_, ptrRecv := sig.Recv().Type().(*types.Pointer)
						_, ptrExpr := sel.Recv().Underlying().(*types.Pointer)
						if ptrRecv && !ptrExpr {
							markRoot(fun.X)
						}
					}
				}
			}
		case *ast.ValueSpec:
			// declared array lengths and constant expressions stay untouched
			if n.Type != nil {
				ast.Inspect(n.Type, func(m ast.Node) bool {
					if m != nil {
						noHook[m] = true
					}
					return true
				})
			}
		case *ast.ArrayType:
			if n.Len != nil {
				ast.Inspect(n.Len, func(m ast.Node) bool {
					if m != nil {
						noHook[m] = true
					}
					return true
				})
			}
		}
		return true
	})
	changed := false
	wrap := func(c *astutil.Cursor, n ast.Expr, v *types.Var) {
		fn := "RP"
		if writeRoot[n] {
			fn = "WP"
		}
		site := in.site(n.Pos(), "var-"+fn+"-"+v.Pkg().Name()+"."+v.Name())
		c.Replace(&ast.ParenExpr{X: &ast.StarExpr{X: rtCall(fn, &ast.UnaryExpr{Op: token.AND, X: n}, strLit(site))}})
		changed = true
	}
	astutil.Apply(f, func(c *astutil.Cursor) bool {
		n := c.Node()
		if n == nil {
			return true
		}
		if noHook[n] {
			return false
		}
		switch n := n.(type) {
		case *ast.GenDecl:
			// package-level declarations: initialisers run before any goroutine exists
			if _, top := c.Parent().(*ast.File); top {
				return false
			}
		case *ast.SelectorExpr:
			if v := qualified(n); v != nil {
				wrap(c, n, v)
				return false
			}
			// only the operand can be a variable use; Sel is a field or method
			return true
		case *ast.Ident:
			if sel, ok := c.Parent().(*ast.SelectorExpr); ok && sel.Sel == n {
				return false
			}
			if kv, ok := c.Parent().(*ast.KeyValueExpr); ok && kv.Key == n {
				if _, isVar := info.Uses[n].(*types.Var); isVar && info.Uses[n].(*types.Var).IsField() {
					return false
				}
			}
			if v := isPkgVar(n); v != nil {
				wrap(c, n, v)
				return false
			}
		}
		return true
	}, nil)
	return changed
}

// clock routes every reading of the wall clock (time.Now, time.Since,
// time.Until) through the runtime, where the explorer decides what time it is.
func (in *instr) clock(f *ast.File) bool {
	changed := false
	info := in.pkg.TypesInfo
	astutil.Apply(f, func(c *astutil.Cursor) bool {
		sel, ok := c.Node().(*ast.SelectorExpr)
		if !ok {
			return true
		}
		id, ok := sel.X.(*ast.Ident)
		if !ok {
			return true
		}
		pn, ok := info.Uses[id].(*types.PkgName)
		if !ok || pn.Imported().Path() != "time" {
			return true
		}
		switch sel.Sel.Name {
		case "Now", "Since", "Until":
			in.n++
			in.site(sel.Pos(), "clock:"+sel.Sel.Name)
			c.Replace(&ast.SelectorExpr{X: ast.NewIdent("zzverifrt"), Sel: ast.NewIdent(sel.Sel.Name)})
			changed = true
		}
		return true
	}, nil)
	return changed
}

func unparen(e ast.Expr) ast.Expr {
	for {
		p, ok := e.(*ast.ParenExpr)
		if !ok {
			return e
		}
		e = p.X
	}
}

// globalsFile lists pointers to all package-level variables.
func (in *instr) globalsFile() string {
	var sb strings.Builder
	fmt.Fprintf(&sb, "package %s\n\n// VerifGlobals returns pointers to every package-level variable.\nfunc VerifGlobals() map[string]any {\n\treturn map[string]any{\n", in.pkg.Types.Name())
	scope := in.pkg.Types.Scope()
	for _, name := range scope.Names() {
		v, ok := scope.Lookup(name).(*types.Var)
		if !ok || name == "_" {
			continue
		}
		_ = v
		fmt.Fprintf(&sb, "\t\t%q: &%s,\n", name, name)
	}
	sb.WriteString("\t}\n}\n")
	return sb.String()
}
