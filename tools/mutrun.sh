#!/bin/bash
# Runs a check against a MUTATED copy of repository files without touching /repo:
#   tools/mutrun.sh <ID> <tier> <repo-relative-path>=<file-with-mutated-content> [...]
# Evidence goes to build/mut-evidence-<id>.json (the real evidence file is left alone).
set -u
cd "$(dirname "$0")/.."
export GOFLAGS=-mod=mod GOPROXY=off GOSUMDB=off GOTOOLCHAIN=local VERIF_ROOT="$PWD"
id="$1"; tier="$2"; shift 2
lower=$(echo "$id" | tr 'A-Z' 'a-z')
mkdir -p build/bin
base="{}"
if [ -x "cmd/$lower/overlay.sh" ]; then
  "cmd/$lower/overlay.sh" "build/overlay-$lower-mut.json" "$@" >/dev/null 2>&1 && base=$(cat "build/overlay-$lower-mut.json")
fi
python3 - "$base" "build/overlay-$lower-mut2.json" "$@" <<'PY'
import json,sys,os
base=json.loads(sys.argv[1]) if sys.argv[1].strip() else {}
rep=base.get("Replace",{})
for a in sys.argv[3:]:
    rel,f=a.split("=",1)
    rep.setdefault("/repo/"+rel, os.path.abspath(f))
json.dump({"Replace":rep},open(sys.argv[2],"w"),indent=1)
PY
go build -overlay "build/overlay-$lower-mut2.json" -o "build/bin/$lower-mut" "./cmd/$lower" || { echo "MUTANT DOES NOT COMPILE"; exit 3; }
"build/bin/$lower-mut" -tier "$tier" -root "$PWD" -evidence "build/mut-evidence-$lower.json"
