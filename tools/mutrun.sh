#!/bin/bash
# Runs a check against a MUTATED copy of repository files without touching /repo:
#   tools/mutrun.sh <ID> <tier> <repo-relative-path>=<file-with-mutated-content> [...]
# Evidence goes to build/mut-evidence-<id>.json (the real evidence file is left alone).
set -u
cd "$(dirname "$0")/.."
export GOFLAGS=-mod=mod GOPROXY=off GOSUMDB=off GOTOOLCHAIN=local VERIF_ROOT="$PWD"
id="$1"; tier="$2"; shift 2
lower=$(echo "$id" | tr 'A-Z' 'a-z')
mkdir -p build/bin
# file names are per invocation: two mutants of one property may be checked at the same time
tag="$lower-mut-$$"
trap 'rm -f "build/overlay-$tag.json" "build/overlay-$tag-2.json" "build/overlay-$tag-3.json" "build/bin/$tag" "build/bin/$tag-race"; rm -rf "build/gen-overlay-$tag" "build/gen-overlay-$tag-sites.json"' EXIT
base="{}"
if [ -x "cmd/$lower/overlay.sh" ]; then
  "cmd/$lower/overlay.sh" "build/overlay-$tag.json" "$@" >/dev/null 2>&1 && base=$(cat "build/overlay-$tag.json")
fi
python3 - "$base" "build/overlay-$tag-2.json" "$@" <<'PY'
import json,sys,os
base=json.loads(sys.argv[1]) if sys.argv[1].strip() else {}
rep=base.get("Replace",{})
for a in sys.argv[3:]:
    rel,f=a.split("=",1)
    rep.setdefault("/repo/"+rel, os.path.abspath(f))
json.dump({"Replace":rep},open(sys.argv[2],"w"),indent=1)
# the mutated files alone (for binaries that are built without instrumentation)
json.dump({"Replace":{"/repo/"+a.split("=",1)[0]: os.path.abspath(a.split("=",1)[1]) for a in sys.argv[3:]}},open(sys.argv[2][:-7]+"-3.json","w"),indent=1)
PY
go build -overlay "build/overlay-$tag-2.json" -o "build/bin/$tag" "./cmd/$lower" || { echo "MUTANT DOES NOT COMPILE"; exit 3; }
if [ -d "cmd/${lower}race" ]; then
  # the supporting free-running pass under the Go race detector, built from the mutated files too
  go build -race -overlay "build/overlay-$tag-3.json" -o "build/bin/$tag-race" "./cmd/${lower}race" && export VERIF_RACE_BIN="$PWD/build/bin/$tag-race"
fi
"build/bin/$tag" -tier "$tier" -root "$PWD" -evidence "build/mut-evidence-$lower.json"
