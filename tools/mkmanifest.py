#!/usr/bin/env python3
"""Regenerates /verif/MANIFEST.json from the table below (and validates it)."""
import json, os, sys
ROOT = os.path.dirname(os.path.dirname(os.path.abspath(__file__)))

# id -> (built, technique, level text, level note, design ref)
P = {}
def prop(id, built, technique, text, note, ref, category="model_checking"):
    P[id] = dict(built=built, technique=technique, text=text, note=note, ref=ref, category=category)

prop("C14", True,
     "explicit-state model checking of the real pfb decoder: stream x caller buffer sizes x source short reads, deviation-bounded, state-key pruning",
     "All PFB streams of <=3 (thorough: 4) segments x 7 endings are explored against the real decoder for every sequence of caller buffer sizes from {0,1,2,3,4,7} and every source delivery with <=2 (thorough: 3) short-read deviations; the oracle (expected text/hex output, buffer-filling rule, EOF/error class) is evaluated at every Read. All 2^16 first-two-byte header values are enumerated completely. Exhaustive inside these bounds, which is the right level for a five-state streaming decoder whose bugs live at buffer boundaries.",
     "Payload values are a fixed sequence (control flow does not depend on them); segment lengths up to 5 (8); io.ReadFull trusted; state key = reflection dump of the decoder's scalar fields + bytes consumed + bytes delivered.",
     "DESIGN.md section 6 C14")

prop("C02", True,
     "bounded-exhaustive differential model checking: every systemdict operator x every operand tuple from a boundary-value pool, plus explicit-state search over operator sequences, real interpreter vs reference machine in lock-step",
     "Every operator/name of systemdict is applied to every operand tuple of arity <=2 over a 46-expression pool and arity 3 over an 18-expression pool (thorough: arity 3 over the full pool, arity 4 reduced), and all sequences of <=3 (thorough 4) macro operations from 6 start states are explored with canonical-state pruning; after every program/step the full interpreter state (operand stack, dictionary stack, all reachable containers including storage sharing) is compared with an independent PLRM reference machine, and error names are compared when the reference prescribes one. Exhaustive inside the pool and depth bounds.",
     "Trusted: the reference machine psmodel and its documented restrictions/ambiguities (model/psmodel/RESTRICTIONS.md); 64-bit integers and float64 reals as implementation limits; state after an error is not compared; operands outside the pool are not reached.",
     "DESIGN.md section 6 C02")
prop("C03", True,
     "bounded-exhaustive enumeration of program shapes (the choice-tree path is the program) run on the real interpreter and a reference machine, full state compared",
     "All programs with <=3 (thorough 4) statements over 13 atoms and 18 control/definition constructs nested to depth 3 (4), one size more over a reduced alphabet, every way of running a body with a procedure literal in first/middle/last position, and every dictionary-stack depth 2..20 with a name defined at each level or pair of levels, are executed on the real interpreter and on an independent PLRM reference machine; final operand stack, dictionary stack, dictionaries and error names must agree. Exhaustive inside the size/depth bounds.",
     "Trusted: the reference machine psmodel (RESTRICTIONS.md); programs that exceed the reference's step budget are skipped (C11 owns budgets); loop counts 0..3 only.",
     "DESIGN.md section 6 C03")

prop("C01", True,
     "bounded-exhaustive enumeration of adversarial but syntactically valid inputs on the real readers in crash-contained worker processes (address-space cap, stack cap, progress watchdog)",
     "Every operator of systemdict and of the CIDInit procedure set is applied to every tuple of <=2 (thorough 3) operands from 26 adversarial operand expressions; every operator pair (triple) after 12 preambles; all byte strings of length <=2 (3) over all 256 bytes and <=4 (5) over 30 lexically significant bytes through the scanner (plain, inside braces, after eexec); all charstrings of <=3 (4) tokens over 38 tokens x 4 subroutine tables; 558 generated fonts with hostile lenIV / wrongly typed or missing entries / hostile seac codes; all 2^16 PFB header byte pairs through type1.Read; AFM line sequences; CMap bodies through ReadCMap. The oracle is: returns, no panic, no fatal runtime error under a 4 GiB / 256 MiB-stack cap, progress within the watchdog. Exhaustive inside these alphabets.",
     "Inputs outside the alphabets are not reached; 'terminates' means progress within 40-120 s per case; the Go runtime's fatal-error detection and the engine's attribution of dead workers are trusted.",
     "DESIGN.md section 6 C01")
prop("C11", True,
     "cut-point enumeration on the real interpreter: every program of a corpus x every budget N in 1..ops+2, unbudgeted runs of growth shapes, all 2^16 start prefixes",
     "For 8.8k programs (thorough 60k+): every program shape with <=2 (3) statements over 10 atoms and 14 constructs, <=3 (4) over a reduced alphabet, plus 33 hand-shaped recursion/error-handler programs, the operation count is measured without budget and the program is re-run with every budget N in 1..ops+2: N>=ops must give the identical canonical state, NumOps and error; N<ops must give exactly ErrExecutionLimitExceeded with NumOps<=N+1. 716 growth/recursion shapes are run with no budget and must end with the corresponding stackoverflow/dictstackoverflow/execstackoverflow/limitcheck, never a dead worker. CheckStart is run on all 65,536 two-byte prefixes plus 0/1-byte inputs and continuations. Exhaustive inside the corpus bounds.",
     "The counter's definition of an operation is the library's own (black box); a bounded overshoot of the operand stack (<=1100 entries) is accepted as 'cut off'; pscmp.Canon trusted for state equality.",
     "DESIGN.md section 6 C11")
prop("C16", True,
     "complete enumeration: all 1,112,064 Unicode scalar values, all table entries, all uni/u name forms in bands (thorough: all 2^24 six-digit values), composites and validity strings over small alphabets, against an independent AGL reference",
     "FromUnicode/ToUnicode round trip and injectivity over every Unicode scalar value; every entry of glyphlist (incl. the 81 multi-code entries), zapfdingbats and aglfn against an independently parsed copy; all uniXXXX over the BMP with case masks and group combinations, all u-forms with 4-5 digits (thorough: all 6-digit values); all composites of <=3 (4) components from a 24-component pool x 6 suffixes x both dingbats flags; IsValid on all strings of length <=3 (6) over 16 bytes and lengths 0..33. All families exhaustive.",
     "Trusted: aglref (own parser and own implementation of the AGL algorithm); the compat table in compat.go is taken as the 'documented expansion'; the library's Tcommaaccent/tcommaaccent fix-up (021A/021B) is tolerated as a documented deviation and counted separately.",
     "DESIGN.md section 6 C16")

prop("C12", True,
     "environment exploration: an io.Reader whose every answer is decided by the explorer, deviation-bounded exhaustive search over delivery schedules; all subsets of token boundaries for Execute-splitting",
     "For 27 corpus inputs (programs incl. eexec hex/binary, readstring, DSC, CheckStart; 4 CMaps; the sample font in 4 containers; 3 AFM files; 6 PFB streams) every delivery schedule with <=3 (thorough 4) deviations from 'fill the buffer' (deliver 1,2,3,7,511 bytes, or the last bytes together with EOF) is explored against the real readers, plus always-1/2/3/7-byte schedules and seekable/non-seekable sources for fonts; every set of <=3 (4) token boundaries of the token-structured programs is fed as consecutive Execute calls. Observation (canonical interpreter state / deep dump + error text) must equal the single-read run. Exhaustive inside the deviation bound for the fixed corpus.",
     "Fixed corpus; readers returning (0,nil) forever excluded; observe.Dump / pscmp.Canon trusted as complete renderings.",
     "DESIGN.md section 6 C12")
prop("C13", True,
     "exhaustive single-fault injection: read fault at every byte offset, truncation at every offset, write fault at every Write call index and every byte offset",
     "For every corpus input a sentinel read fault is injected at EVERY byte offset (2 delivery styles, seekable and plain for fonts): if the fault reached the library the call must return an error, otherwise the complete result; every font container and CMap file is cut at EVERY offset and must give an error or the complete result; for 3 fonts x 6 writer invocations and 3 metrics values a transient fault is injected at EVERY Write call and a short write at EVERY byte offset, each of which must surface as an error. All enumerations complete for the corpus.",
     "Single faults only; fixed corpus; a read fault beyond the point where the reader legitimately stops (PFB end marker) is not required to surface.",
     "DESIGN.md section 6 C13", category="fault_enumeration")

prop("C17", True,
     "model checking with owned nondeterminism: an overlay rewrites every map iteration of the library so that the explorer chooses its order; deviation-bounded exhaustive search over iteration orders",
     "Every range over a map and every maps.Keys/Values call in the library (13 sites, found and rewritten from the typed AST of the current tree at check time) iterates in an order chosen by the explorer: all n! orders for n<=4, rotations and adjacent swaps beyond, with <=3 (thorough 4) sites deviating from sorted order per execution. 56 workloads (font writes in all formats and WritePDF, metrics writes, font/metrics queries, ReadCMap with 1..3 CMaps per file, type1.Read of all containers, write+read cycles, a dictionary-copy program) must produce byte-identical observations in every execution. All orders are a superset of what the Go runtime can produce.",
     "Only iteration sites in the repository's own packages are controlled (std lib trusted: text/template and fmt sort keys); a typed-AST inventory finds no clock/rand/unsafe/%p use; tools/instrument and go build -overlay trusted.",
     "DESIGN.md section 6 C17")
prop("C18", True,
     "explicit-state search over histories of hostile programs with a reflective image of all package-level state; cooperative-scheduler exploration of goroutine interleavings (preemption-bounded) over a sync shim with vector-clock happens-before race detection",
     "G1/G2: all sequences of <=2 (thorough 3) of 55 hostile programs (every container reachable from a fresh interpreter x mutating operators, StandardEncoding overwrites, all operators/CIDInit entries/error handlers redefined, failing half-way, hitting the budget, hostile fonts/CMaps through the readers) are run on throw-away instances; after each history the deep image of every package-level variable of the 8 packages and a probe workload on fresh instances must be unchanged, and the mutable heap nodes of two fresh interpreters and of the globals must be pairwise disjoint. G3: for 1025 scenarios of 2..3 goroutines calling the name-mapping functions from uninitialised tables, every interleaving at lock operations with <=2 (3) preemptions is executed on the real code under a cooperative scheduler; results must equal sequential results, no conflicting accesses unordered by happens-before, no deadlock.",
     "Scheduler sees sync operations and hooked field/map accesses only (Go memory model below that not modelled); N goroutines argued from 2..3 plus G1/G2; std-lib-typed globals opaque; instrumentation generated by tools/instrument is trusted.",
     "DESIGN.md section 6 C18")

prop("C04", True,
     "bounded-exhaustive enumeration of the lexical product space (object x spelling x separator) through the real scanner, ground truth = the generator's object sequence",
     "115 objects with 469 spellings (integers at the 2^31/2^63 boundaries in decimal and radix 2..36, reals, 58 executable names incl. every number look-alike, literal names, strings in literal/hex/ASCII85 form, procedures) x 13 separators: all single tokens, all ordered pairs (quick: up to 4 spellings per object), triples with the middle spelling free; literal strings with each of the 256 bytes raw/escaped/octal and line continuations; hex and ASCII85 strings with white space and odd tails; DSC comments at 6 positions with continuations; String.PS() for all byte strings of length <=2 and Name.PS() for all regular names of length <=2 read back. Observed unexecuted inside { } through the public interpreter. Exhaustive inside these pools.",
     "Deliberately not generated: FF-terminated comments, control bytes in names, ASCII85 groups >= 2^32, reals beyond float64, radix bases with leading zeros; 64-bit integers.",
     "DESIGN.md section 6 C04")
prop("C05", True,
     "complete cover of the eexec cipher's state graph (all 2^24 state/byte edges in thorough, 2^20 with every state entered in quick) plus bounded-exhaustive enumeration of container layouts and buffer positions, differential against the clear-text run",
     "The stream cipher has 2^16 states x 256 bytes: trails covering every (state, cipher byte) edge are fed as readstring payloads inside one eexec section and compared with an independent cipher (thorough: all 16,777,216 edges in binary and again in hex; quick: 1,048,576 edges, every state used). Layout: 12 plaintexts x {binary, hex lower/upper/mixed} x white space of 5 kinds at every single and pair of positions after the fourth digit; 177 prefix classes x gaps x 6 trailers; the section placed so that the scanner's 512-byte refill boundary falls at every offset around it. Oracle: interpreter state equals that of `systemdict begin <plaintext> end <trailer>` run in the clear.",
     "Precondition: closefile is followed by one white-space byte inside the encrypted part; hex form <=> first four ciphertext bytes are hex digits; eexecref (20-line Adobe cipher) trusted.",
     "DESIGN.md section 6 C05")
prop("C06", True,
     "deviation-bounded exhaustive exploration of (model font x conforming serialisation) with an independent Type 1 producer; the reader's result compared field by field with the model",
     "376 model fonts (16 outlines x hint configurations x metrics kinds, composites, multi-glyph fonts, dictionary/string/date/encoding variants) are written by an independent producer (t1gen: own charstring encoder, ciphers, containers PFA/binary/PFB/no-eexec/split PFB/hex-looking binary, lenIV 0/1/4/7, RD-ND-NP or -| |- |, three encoding forms, h/v/r command forms, 1/2/5-byte and div numbers, five subroutine factorings, flex at every legal position, hint replacement, dotsection, sbw, seac, four date layouts); every serialisation within <=2 (thorough 3) deviations from the plain style is read by type1.Read and compared with the model (outlines, widths, stems, 256 encoding slots, strings byte-exact, private values and defaults, creation date).",
     "Preconditions on generated fonts: explicit closepath on every contour, integer hints/side bearings on hinted glyphs, no stem/stem3 mixing, seac only under the restrictions of DESIGN.md section 10; t1gen/t1model trusted as readings of the Type 1 book.",
     "DESIGN.md section 6 C06")
prop("C07", True,
     "operation-sequence exploration: every sequence of CMap blocks over a small alphabet through the real ReadCMap against a list-of-blocks reference model; every single-fault variant",
     "All sequences of <=3 (thorough 4) blocks over 7 kinds x entry counts {0,1,2,3} (thorough also 100), with code-length pattern, destination type, usecmap, header variants and layout as deviation points; all pairs over the full kind x count x pattern x destination alphabet; layouts (white space, comments, %% lines, one insertion at every token gap); every single fault the property names at every block position of every sequence of <=2 blocks (count 101, count larger than supplied, unequal bounds, low > high, wrong destination/source types, missing begincmap); frame departures; two and three CMaps per file. Returned tables compared with the model (sorted as specified, equal keys as multisets) including aliasing checks.",
     "Not treated as faults (property silent): declared count smaller than supplied, reversed code-space range; cmapmodel trusted.",
     "DESIGN.md section 6 C07")
prop("C08", True,
     "bounded-exhaustive enumeration of fonts in the writable domain x 5 output forms, the written bytes decoded by an independent Type 1 consumer and compared with the source font",
     "89k (thorough 0.86M) fonts: 14 outlines x stems x widths for 1-3 glyphs, path lengths 0..40, info strings over all bytes, regular-character names, encodings (none, all-.notdef, subsets and overrides of the standard encoding), private values, dates, 0/1/3/300 glyphs; each written as PFA, PFB, binary, no-eexec and WritePDF; decoded by t1dec (own PFB de-framer strict about lengths/markers, own eexec and charstring ciphers, own tokenizer and dictionary evaluator, own charstring interpreter in exact rationals). Checked: decoded font equals the source (outlines exact for integers, within 1/214 otherwise), PFB framing, binary-form prefix rules, WritePDF length1/length2.",
     "t1dec parses the shape the writer's template produces plus the variations the Type 1 book allows for it (not a general PostScript interpreter); creation date not compared.",
     "DESIGN.md section 6 C08")
prop("C09", True,
     "bounded-exhaustive enumeration of fonts in the round-trip domain x 4 formats: library Write then library Read, deep comparison with the stated tolerances",
     "64k (thorough 0.46M) fonts from the same families as C08 restricted to the C09 domain (integer widths, regular names, well-formed contours, any 256-entry encoding or none incl. ones leaving codes of existing glyphs unassigned, creation times in UTC/named/unnamed zones with sub-second parts) x PFA/PFB/binary/no-eexec: the font read back must equal the original (outlines exact for integers, <=0.005 otherwise, same name at all 256 codes, strings byte-exact, matrix, private values, creation time as an instant to the second).",
     "Glyph names that shadow operators of the font program (RD, ND, def, ...) are a listed open finding; t1fonts generators/comparer trusted.",
     "DESIGN.md section 6 C09")
prop("C10", True,
     "deviation-bounded exhaustive exploration of unusual-but-legal inputs produced by an independent writer x format1 x format2, checking the read-write-read closure on the real reader and writer",
     "371 unusual fonts (fractional widths and side bearings, sbw, encodings naming absent glyphs, missing .notdef, empty strings, strings with line breaks/parentheses/backslashes, odd names, four date layouts, non-default private values, BlueScale near its default) serialised by t1gen within <=1 (thorough 2) deviations; for each accepted input and all 4x4 format pairs: Write succeeds in every format, F2 = Read(Write(F1)) equals F1 up to the three documented quantisations only, F3 = Read(Write(F2)) equals F2 exactly.",
     "Inputs are the independent producer's files, not arbitrary bytes; no fractional-second dates; glyphs named RD/ND/NP are a listed open finding.",
     "DESIGN.md section 6 C10")
prop("C15", True,
     "bounded-exhaustive enumeration of metrics values (structure in full, values k-wise) through library Write/Read and through an independent AFM writer with layout choices; closure chain Read-Write-Read-Write-Read",
     "All shapes (1-4 glyphs, injective partial encodings, 7 ligature patterns, 6 kerning patterns: 3,432 shapes) with every text/number field a deviation point over its pool (<=1/2 deviations quick, 3 thorough): library Write -> Read must return equal metrics (widths, boxes, ligatures, codes, kern pairs in order, all header fields incl. Version and Notice); the same values through afmcodec with 15 layout dimensions (field order, tabs, CRLF, optional sections, comments, unknown keys) -> library Read; and for every accepted text the closure: names and text preserved, numbers changed only by rounding to integers, third result equal to second.",
     "Widths and kerning within int16 (the reader's representation), names single tokens, layouts inside the AFM specification; afmcodec trusted.",
     "DESIGN.md section 6 C15")
prop("C19", True,
     "bounded-exhaustive enumeration of fonts/metrics (glyph sets x encodings x outlines x matrices) with every query method compared against a naive recomputation from the definitions",
     "32 glyph sets over {.notdef, space, A, B, Aacute} x 1,297 encodings; 32 sets x 5 encoding kinds x 6 (thorough 10) axis-aligned matrices x every assignment of 10 (17) outlines to the glyphs; afm boxes/widths; funit Rect/Rect16 unions: for each, GlyphList (each glyph once, .notdef first, encoded glyphs in code order, rest alphabetical, length = NumGlyphs), glyph and font bounding boxes (end points only, through the font matrix x 1000), PDF widths per glyph and as map, fallbacks for unknown names, for type1.Font and afm.Metrics. 11.4M executions quick, 95M thorough.",
     "Float products compared within 1e-9 relative; a glyph whose end points all map to the origin is indistinguishable from an empty one (both readings accepted); geomref trusted.",
     "DESIGN.md section 6 C19")
prop("C20", True,
     "complete enumeration of integers (thorough: all 2^32 values) and rational fractions against an exact reference, plus explicit-state search over path error states for drift",
     "Integers: appendInt through an export shim for -70,000..70,000, every format boundary and power of two +-3 (thorough: all 2^32 int32 values) must use the proper 1/2/5-byte format and decode (reference decoder and library decoder) to the same integer; also through the public Write/Read path. Fractions: all p/q with q<=400, |p/q|<4 and offsets at format boundaries and powers of ten: |decoded-x| <= 1/214 in exact rational arithmetic. Drift: all paths of length <=3 (4) over 12 deltas x 3 segment kinds, explicit-state search over distinct error states to depth 4 (6), periodic and 10,000-segment paths: every reconstructed absolute coordinate within 1/214 of the requested one.",
     "Tolerance 1/214 plus a few ulp; if the export shim no longer compiles the public-path families still run (shim_unavailable); numref trusted.",
     "DESIGN.md section 6 C20")

# Families added while the checks were strengthened against four rounds of independently
# seeded changes (DESIGN.md section 11); the evidence files carry their exact rules and counts.
ADDED = {
 "C01": "operands include error-handler objects, resource names, system objects and 48-level shared graphs (2^48 paths); flex / hint-replacement macro tokens and 1..40 repetitions of every charstring token; 100 ways of putting non-fonts into the font directory; self-referential seac composites; deep-nesting (procedure literals, marks and loop-built containers nested up to 12 million deep, through the interpreter, ReadCMap and type1.Read); AFM section headers announcing up to 2^63-1 entries; internaldict / userdict / FontDirectory / CIDInit as operands; name-alias-cycles; subroutines of 30,000 operators in the call fan-out; range bodies with bounds of up to 9 bytes; seac-chains (composites of composites, 1..255 deep); multiplying-operators (count copy, aload, astore in loops under three budgets)",
 "C02": "system objects, the null object and probe-key dictionaries as operands; every fresh interpreter's start state compared with the reference; integer-boundaries (108 boundary integers, all ordered pairs x every numeric operator); start states with null-valued and shadowed names; rebinding through put/copy as single macro operations; procedures bound while an operator was known under an alias that is rebound later; boundary integers as roll amounts and index / copy operands; leading sub-intervals (overlapping putinterval / copy); the empty name and a resource category name as operands; the mark of << and a procedure's body string as operands",
 "C03": "rebinding through put; strings with bytes >= 0x80; loop-operands (for over 8^3 operand triples incl. increment 0, repeat, forall over 16 containers x 8 bodies); repetition (17 bodies x N up to 400 x repeat / for / N Execute calls on one interpreter); nested-forall over arrays, strings and dictionaries at 2-3 levels with a closed-form oracle; stop-inside-eexec; for at both ends of the integer range (972 triples); tail-calls-and-exit-handlers (self-calling loops up to 5000 rounds, 14 loops left by exit x 6 sets of handlers installed in errordict); null / file bindings that hide older definitions; procedures that store into their own body; aliases (names whose value is an executable name); handlers that exit or stop; Execute calls after a program that ended by stop; procedures bound twice",
 "C04": "odd-length texts delivered with io.EOF attached to the last bytes; buffer-boundaries (9 snippets at every offset around three 512-byte boundaries x 3 paddings x 3 readers); DSC comments under all mixes of LF/CR/CRLF line ends and around hex and binary eexec sections; octal escapes and followers; comments ended by a form feed; structured comments ended by a form feed; programs ending in stop; a reader with idle reads (0, nil) in the buffer-boundary family; empty continuation lines and bare %% lines under every mix of line ends",
 "C05": "two sections in one stream; all 256 values at each of the first four cipher bytes; what the encrypted part does to the dictionary stack (restored afterwards; inside the section checked against a simulation for 9 stacks x 8 bodies); DSC comments are part of the compared state; closefile followed by each delimiter (17 continuations x 4 containers x 4 bodies); readstring delimiter x first data byte (432 cases, absolute oracle); second-call-after-a-section; prefix sweep behind blank / CR / LF with a plaintext starting LF + DSC; sections delivered in one piece together with io.EOF",
 "C06": "binary containers starting with a control byte / with three hex digits and NUL; a ten-deep subroutine chain; all 256 subsets of the optional Private entries; every third file read through a positioned seekable reader and every third with data + io.EOF; raw CR / LF / CR LF line ends and line continuations inside strings; Subrs arrays with unset elements; white space inside hex bytes; shortest octal escapes before 8 / 9; reals in the Type 1 book's spelling (.0526, 7.); composites with fractional side bearings; counter control calls with 22 arguments; large-fonts (up to 9000 glyphs / 4.4 million charstring tokens in every container)",
 "C07": "sort-order family (codes that are zero-extended prefixes of each other); files of 1..1000 (thorough 2500) full blocks; 0..70,000 bytes of header before the CMap; every odd-length file delivered with io.EOF attached; ranges at the ends of the code space; reversed code space ranges rejected; operand-stack-boundary (497..500 objects); every third file read once before with the result overwritten by the caller; repeated-entries; %%EOF / %%Trailer comment lines inside the file; a quarter of the files through a source with idle reads; usecmap after the blocks; integer destinations up to 2^63-1; literal names with bytes above 127",
 "C08": "curve forms x adversarial fractions, one numeric field at a time over 30 adversarial values, fonts > 64 KiB, a long charstring at 512 consecutive alignments, 800-byte info strings with an escape at every critical offset, near-axis segments and tangents; the font value must be unchanged by the writer; every fourth font is edited in place and written again; curve-coincidence-grid (729 equality patterns among a curve's four points); singular font matrices; time zones the header cannot name; long-creeping-paths; near-axis steps 20,000 units from the origin; single steps up to 10^9.5 and +-2^31; info strings that look like the file's own markers",
 "C09": "the same additional font families as C08; write must leave the font value unchanged; every fourth font is edited in place and written again; the same new families as C08; creation times in zones with second offsets / arbitrary names; read back through HalfReader / OneByteReader",
 "C10": "hint configurations with repeated stems, fonts > 64 KiB, all subsets of the Private entries, coordinates n + 1/d for n up to 10^9, control bytes followed by digits in info strings; 15..20 BlueValues and 11..12 OtherBlues; a contour starting where the previous one ended; near-axis steps far from the origin; 620-byte strings with escapes at 26 critical offsets; inputs read after a font that stores into StandardEncoding; negative standard stem widths; curves that look like hv / vh curves and are not",
 "C11": "growth shapes through aliases; the budget across several Execute calls; 54 growth shapes x 10 contexts (inside error handlers, forall bodies, bound procedures, ...); operators whose work depends on a size among the cut-point programs; stack-fill programs with exact expectations incl. unterminated procedure bodies; calls after the budget error leave NumOps at N+1; after a rejected start further inputs without %! are rejected; loops announced for many rounds and left early at every budget; nesting-limit-across-an-eexec-section; empty-body loops; recursion through completed tail calls; nesting limit independent of what ran before; start check after comment-only input; programs ending in an eexec section that needs no operations, at every cut point",
 "C12": "49 inputs incl. tiny eexec programs, in-line data followed by DSC lines, 12 abruptly ending programs, a CMap tokenised for splitting inside blocks; an empty read (0, nil) among the deviations; seekable sources at non-zero offsets; splitting x 3 operation budgets; stray delimiters in the middle of a program; PFB streams ending in a text segment without end marker; sections that look binary behind four hex digits; heavy-inputs-through-different-readers; AFM files with an unterminated last line of up to 2^24+1 bytes; long-programs-in-several-calls (up to 5000 structured comments)",
 "C13": "7 fault styles (error alone / together with the last good bytes / reported once) x 5 error values (sentinel, io.ErrUnexpectedEOF, wrapped io.EOF, ...); a font with a 600-segment glyph among the writer invocations; pfb-text-segment-fault-reported-with-data (289 offsets); faults through a bufio.Reader; write faults reported with the full byte count",
 "C14": "many-short-segments (50..1000 segments x 6 patterns x 5 caller buffers x 3 sources incl. empty reads); thorough: 3 segments / 3 deviations and 4 segments / 2 deviations; bytes-after-the-end-marker; payload-values (first four payload bytes from 8 classes x type x 6 buffers); large-caller-buffers (4 KiB..1 MiB); text segments ending in eexec before binary segments; segments of 2^31-1 .. 2^32-1 bytes; idle reads must not shorten a Read; caller buffers of 4 and 8 GiB",
 "C15": "kerning names with % signs; sizes-and-precision (text fields up to 60,000 bytes, glyphs with up to 3000 ligatures, 5000 glyphs, ItalicAngle with 17 digits); write after a failed write; results overwritten by the caller; the metrics value unchanged by Write; Notice up to 200,000 bytes and lines beyond 64 KiB; every header key twice; flat boxes; EncodingScheme AdobeStandardEncoding declared by the file; Latin-1 / UTF-8 bytes in text fields; rewrite-after-edit history cases; files of about 5 MB",
 "C16": "results-owned-by-caller (every list entry x 4 name shapes: overwrite and extend the result, look up again); long-composites (4..1000 components); first call in a fresh process; every Unicode scalar value inside an otherwise valid name for IsValid",
 "C17": "73+ workloads incl. several fonts per file, blank glyphs away from the origin, signed zeros, glyph names that collide after sanitising; repeatability-across-histories: 18 targets x all histories of <= 2 of 49 operations (writes failing at 7 points in every format, reads of other / broken inputs, programs that rewrite system objects); the overlay also carries the sync shim (deterministic Pool); the wall clock is a choice point (instrument -mode clock: time.Now/Since/Until); history-before-first-use-in-a-fresh-process (850 child processes); programs and CMaps whose result depends on the order of forall over a dictionary; glyph names equal under a natural-order comparison; 3..5 CMaps linked by usecmap; several unwritable names at once; fonts failing with each decoder error, read repeatedly; keys that differ only in case; a dictionary copy stopped half-way with the error swallowed",
 "C18": "G1': first-use rule for package state; hooks on every package-level variable (instrument -mode pkgvars); state image walks foreign types and slice capacity; hostile histories incl. errors / budget inside eexec and the readers, results overwritten through a reflection walk; G5 overlapping executions (17 calls incl. writers, 515 items, scheduling points in readers and writers); G6 cold-start races in child processes that have made no library call before; hostile programs overwrite every composite an operator returns; reads with creation dates in other layouts among the overlapping calls; dictionary comparisons; psenc.StandardEncoding[:] handed back as a font's encoding; hostile-program-first-in-a-fresh-process (child processes); arguments-are-not-written-to; package state imaged before the first library call of the process; PFB headers arriving in pieces in overlapping calls; a history of writes that fail half-way; race pass rebuilt for tested changes",
 "C19": "glyph lists of 11..300 names incl. names sorting before .notdef and nil encodings; all-zero font matrix; one case in sixteen also checks that queries leave the value unchanged and own their results; the empty glyph name; glyphs with commands but no points in the quick tier; both font boxes must take the same reading of an origin-only glyph; IsFixedPitch / ItalicAngle varied; an outline ending in a moveto; glyph sets of up to 70,000 names; command lists only the exported field can hold, every outline x every matrix on small fonts",
 "C20": "curve forms x adversarial fraction grid; near-axis segments and tangents; perpendicular creep over 200..10,000 segments; decode after a failed decode; stems up to 65534 units wide; drift-far-from-origin (10,000 curves after a moveto to +-2^31); rewrite-after-edit; many-stems (up to 500 pairs); repeated stem pairs; fractional second control points next to near-axis tangents",
}

def main():
    checks, na = [], []
    props = [json.loads(l) for l in open(os.path.join(ROOT, "properties.jsonl"))]
    for p in props:
        id = p["id"]
        e = P.get(id)
        if not e or not e["built"]:
            na.append({"property_id": id, "reason": "no check built"})
            continue
        checks.append({
            "property_id": id,
            "quick_cmd": f"./check {id} quick",
            "thorough_cmd": f"./check {id} thorough",
            "evidence_file": f"/verif/evidence/{id}.json",
            "replay_cmd_template": f"./check {id} --replay {{path}}",
            "engine": "mc",
            "level_claimed": {"category": e["category"], "text": e["text"] + (" Added since (exact rules in the evidence file): " + ADDED[id] + "." if id in ADDED else ""), "design_ref": e["ref"]},
            "level_note": e["note"],
            "technique": e["technique"],
        })
    m = {
        "version": 1,
        "setup_cmd": "./setup.sh",
        "hooks": {
            "guard": "none in source: instrumentation is injected with `go build -overlay` (export shims, sync shim, map-order rewrite, package-variable access hooks, wall-clock rewrite) generated from /repo's working tree at check time; a normal build never sees it",
            "enable": "./check <ID> builds cmd/<id> with -overlay build/overlay-<id>.json when cmd/<id>/overlay.sh exists",
            "baseline_off_cmd": "cd /repo && GOFLAGS=-mod=mod GOPROXY=off GOSUMDB=off go test -json -vet=off -count=1 -timeout 25m ./...",
            "source_commits": [],
            "add_only": True,
        },
        "engines": [{
            "name": "mc", "path": "/verif/mc",
            "serves_properties": [c["property_id"] for c in checks],
            "kind_free_text": "hand-written stateless model checker for Go: depth-first enumeration of a driver's choice tree by prefix replay on the real library code, deviation-bounded (iterative context bounding applied to environment answers), optional explicit-state pruning on canonical state keys, 16 worker processes with address-space and stack caps, crash/hang attribution, determinism self-check by re-execution",
        }],
        "checks": checks,
        "not_applicable": na,
        "notes": "All checks rebuild from /repo's working tree (./check). Known findings: /verif/known_findings.json. Seeded property-breaking changes and which checks catch them: /verif/seeded, DESIGN.md.",
    }
    out = os.path.join(ROOT, "MANIFEST.json")
    json.dump(m, open(out, "w"), indent=1)
    open(out, "a").write("\n")
    try:
        import jsonschema
        jsonschema.validate(m, json.load(open("/root/.vp/MANIFEST.schema.json")))
        print("MANIFEST.json valid;", len(checks), "checks,", len(na), "not claimed")
    except ImportError:
        print("MANIFEST.json written (jsonschema not available to validate)")

if __name__ == "__main__":
    main()
