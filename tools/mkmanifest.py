#!/usr/bin/env python3
"""Regenerates /verif/MANIFEST.json from the table below (and validates it)."""
import json, os, sys
ROOT = os.path.dirname(os.path.dirname(os.path.abspath(__file__)))

# id -> (built, technique, level text, level note, design ref)
P = {}
def prop(id, built, technique, text, note, ref, category="model_checking"):
    P[id] = dict(built=built, technique=technique, text=text, note=note, ref=ref, category=category)

prop("C14", True,
     "explicit-state model checking of the real pfb decoder: stream x caller buffer sizes x source short reads, deviation-bounded, state-key pruning",
     "All PFB streams of <=3 (thorough: 4) segments x 7 endings are explored against the real decoder for every sequence of caller buffer sizes from {0,1,2,3,4,7} and every source delivery with <=2 (thorough: 3) short-read deviations; the oracle (expected text/hex output, buffer-filling rule, EOF/error class) is evaluated at every Read. All 2^16 first-two-byte header values are enumerated completely. Exhaustive inside these bounds, which is the right level for a five-state streaming decoder whose bugs live at buffer boundaries.",
     "Payload values are a fixed sequence (control flow does not depend on them); segment lengths up to 5 (8); io.ReadFull trusted; state key = reflection dump of the decoder's scalar fields + bytes consumed + bytes delivered.",
     "DESIGN.md section 6 C14")

prop("C02", True,
     "bounded-exhaustive differential model checking: every systemdict operator x every operand tuple from a boundary-value pool, plus explicit-state search over operator sequences, real interpreter vs reference machine in lock-step",
     "Every operator/name of systemdict is applied to every operand tuple of arity <=2 over a 46-expression pool and arity 3 over an 18-expression pool (thorough: arity 3 over the full pool, arity 4 reduced), and all sequences of <=3 (thorough 4) macro operations from 6 start states are explored with canonical-state pruning; after every program/step the full interpreter state (operand stack, dictionary stack, all reachable containers including storage sharing) is compared with an independent PLRM reference machine, and error names are compared when the reference prescribes one. Exhaustive inside the pool and depth bounds.",
     "Trusted: the reference machine psmodel and its documented restrictions/ambiguities (model/psmodel/RESTRICTIONS.md); 64-bit integers and float64 reals as implementation limits; state after an error is not compared; operands outside the pool are not reached.",
     "DESIGN.md section 6 C02")
prop("C03", True,
     "bounded-exhaustive enumeration of program shapes (the choice-tree path is the program) run on the real interpreter and a reference machine, full state compared",
     "All programs with <=3 (thorough 4) statements over 13 atoms and 18 control/definition constructs nested to depth 3 (4), one size more over a reduced alphabet, every way of running a body with a procedure literal in first/middle/last position, and every dictionary-stack depth 2..20 with a name defined at each level or pair of levels, are executed on the real interpreter and on an independent PLRM reference machine; final operand stack, dictionary stack, dictionaries and error names must agree. Exhaustive inside the size/depth bounds.",
     "Trusted: the reference machine psmodel (RESTRICTIONS.md); programs that exceed the reference's step budget are skipped (C11 owns budgets); loop counts 0..3 only.",
     "DESIGN.md section 6 C03")

prop("C01", True,
     "bounded-exhaustive enumeration of adversarial but syntactically valid inputs on the real readers in crash-contained worker processes (address-space cap, stack cap, progress watchdog)",
     "Every operator of systemdict and of the CIDInit procedure set is applied to every tuple of <=2 (thorough 3) operands from 26 adversarial operand expressions; every operator pair (triple) after 12 preambles; all byte strings of length <=2 (3) over all 256 bytes and <=4 (5) over 30 lexically significant bytes through the scanner (plain, inside braces, after eexec); all charstrings of <=3 (4) tokens over 38 tokens x 4 subroutine tables; 558 generated fonts with hostile lenIV / wrongly typed or missing entries / hostile seac codes; all 2^16 PFB header byte pairs through type1.Read; AFM line sequences; CMap bodies through ReadCMap. The oracle is: returns, no panic, no fatal runtime error under a 4 GiB / 256 MiB-stack cap, progress within the watchdog. Exhaustive inside these alphabets.",
     "Inputs outside the alphabets are not reached; 'terminates' means progress within 40-120 s per case; the Go runtime's fatal-error detection and the engine's attribution of dead workers are trusted.",
     "DESIGN.md section 6 C01")
prop("C11", True,
     "cut-point enumeration on the real interpreter: every program of a corpus x every budget N in 1..ops+2, unbudgeted runs of growth shapes, all 2^16 start prefixes",
     "For 8.8k programs (thorough 60k+): every program shape with <=2 (3) statements over 10 atoms and 14 constructs, <=3 (4) over a reduced alphabet, plus 33 hand-shaped recursion/error-handler programs, the operation count is measured without budget and the program is re-run with every budget N in 1..ops+2: N>=ops must give the identical canonical state, NumOps and error; N<ops must give exactly ErrExecutionLimitExceeded with NumOps<=N+1. 716 growth/recursion shapes are run with no budget and must end with the corresponding stackoverflow/dictstackoverflow/execstackoverflow/limitcheck, never a dead worker. CheckStart is run on all 65,536 two-byte prefixes plus 0/1-byte inputs and continuations. Exhaustive inside the corpus bounds.",
     "The counter's definition of an operation is the library's own (black box); a bounded overshoot of the operand stack (<=1100 entries) is accepted as 'cut off'; pscmp.Canon trusted for state equality.",
     "DESIGN.md section 6 C11")
prop("C16", True,
     "complete enumeration: all 1,112,064 Unicode scalar values, all table entries, all uni/u name forms in bands (thorough: all 2^24 six-digit values), composites and validity strings over small alphabets, against an independent AGL reference",
     "FromUnicode/ToUnicode round trip and injectivity over every Unicode scalar value; every entry of glyphlist (incl. the 81 multi-code entries), zapfdingbats and aglfn against an independently parsed copy; all uniXXXX over the BMP with case masks and group combinations, all u-forms with 4-5 digits (thorough: all 6-digit values); all composites of <=3 (4) components from a 24-component pool x 6 suffixes x both dingbats flags; IsValid on all strings of length <=3 (6) over 16 bytes and lengths 0..33. All families exhaustive.",
     "Trusted: aglref (own parser and own implementation of the AGL algorithm); the compat table in compat.go is taken as the 'documented expansion'; the library's Tcommaaccent/tcommaaccent fix-up (021A/021B) is tolerated as a documented deviation and counted separately.",
     "DESIGN.md section 6 C16")

prop("C12", True,
     "environment exploration: an io.Reader whose every answer is decided by the explorer, deviation-bounded exhaustive search over delivery schedules; all subsets of token boundaries for Execute-splitting",
     "For 27 corpus inputs (programs incl. eexec hex/binary, readstring, DSC, CheckStart; 4 CMaps; the sample font in 4 containers; 3 AFM files; 6 PFB streams) every delivery schedule with <=3 (thorough 4) deviations from 'fill the buffer' (deliver 1,2,3,7,511 bytes, or the last bytes together with EOF) is explored against the real readers, plus always-1/2/3/7-byte schedules and seekable/non-seekable sources for fonts; every set of <=3 (4) token boundaries of the token-structured programs is fed as consecutive Execute calls. Observation (canonical interpreter state / deep dump + error text) must equal the single-read run. Exhaustive inside the deviation bound for the fixed corpus.",
     "Fixed corpus; readers returning (0,nil) forever excluded; observe.Dump / pscmp.Canon trusted as complete renderings.",
     "DESIGN.md section 6 C12")
prop("C13", True,
     "exhaustive single-fault injection: read fault at every byte offset, truncation at every offset, write fault at every Write call index and every byte offset",
     "For every corpus input a sentinel read fault is injected at EVERY byte offset (2 delivery styles, seekable and plain for fonts): if the fault reached the library the call must return an error, otherwise the complete result; every font container and CMap file is cut at EVERY offset and must give an error or the complete result; for 3 fonts x 6 writer invocations and 3 metrics values a transient fault is injected at EVERY Write call and a short write at EVERY byte offset, each of which must surface as an error. All enumerations complete for the corpus.",
     "Single faults only; fixed corpus; a read fault beyond the point where the reader legitimately stops (PFB end marker) is not required to surface.",
     "DESIGN.md section 6 C13", category="fault_enumeration")

prop("C17", True,
     "model checking with owned nondeterminism: an overlay rewrites every map iteration of the library so that the explorer chooses its order; deviation-bounded exhaustive search over iteration orders",
     "Every range over a map and every maps.Keys/Values call in the library (13 sites, found and rewritten from the typed AST of the current tree at check time) iterates in an order chosen by the explorer: all n! orders for n<=4, rotations and adjacent swaps beyond, with <=3 (thorough 4) sites deviating from sorted order per execution. 56 workloads (font writes in all formats and WritePDF, metrics writes, font/metrics queries, ReadCMap with 1..3 CMaps per file, type1.Read of all containers, write+read cycles, a dictionary-copy program) must produce byte-identical observations in every execution. All orders are a superset of what the Go runtime can produce.",
     "Only iteration sites in the repository's own packages are controlled (std lib trusted: text/template and fmt sort keys); a typed-AST inventory finds no clock/rand/unsafe/%p use; tools/instrument and go build -overlay trusted.",
     "DESIGN.md section 6 C17")
prop("C18", True,
     "explicit-state search over histories of hostile programs with a reflective image of all package-level state; cooperative-scheduler exploration of goroutine interleavings (preemption-bounded) over a sync shim with vector-clock happens-before race detection",
     "G1/G2: all sequences of <=2 (thorough 3) of 55 hostile programs (every container reachable from a fresh interpreter x mutating operators, StandardEncoding overwrites, all operators/CIDInit entries/error handlers redefined, failing half-way, hitting the budget, hostile fonts/CMaps through the readers) are run on throw-away instances; after each history the deep image of every package-level variable of the 8 packages and a probe workload on fresh instances must be unchanged, and the mutable heap nodes of two fresh interpreters and of the globals must be pairwise disjoint. G3: for 1025 scenarios of 2..3 goroutines calling the name-mapping functions from uninitialised tables, every interleaving at lock operations with <=2 (3) preemptions is executed on the real code under a cooperative scheduler; results must equal sequential results, no conflicting accesses unordered by happens-before, no deadlock.",
     "Scheduler sees sync operations and hooked field/map accesses only (Go memory model below that not modelled); N goroutines argued from 2..3 plus G1/G2; std-lib-typed globals opaque; instrumentation generated by tools/instrument is trusted.",
     "DESIGN.md section 6 C18")

def main():
    checks, na = [], []
    props = [json.loads(l) for l in open(os.path.join(ROOT, "properties.jsonl"))]
    for p in props:
        id = p["id"]
        e = P.get(id)
        if not e or not e["built"]:
            na.append({"property_id": id, "reason": "check not built yet in this session (planned, see DESIGN.md section 6); a bounded-exhaustive formulation exists"})
            continue
        checks.append({
            "property_id": id,
            "quick_cmd": f"./check {id} quick",
            "thorough_cmd": f"./check {id} thorough",
            "evidence_file": f"/verif/evidence/{id}.json",
            "replay_cmd_template": f"./check {id} --replay {{path}}",
            "engine": "mc",
            "level_claimed": {"category": e["category"], "text": e["text"], "design_ref": e["ref"]},
            "level_note": e["note"],
            "technique": e["technique"],
        })
    m = {
        "version": 1,
        "setup_cmd": "./setup.sh",
        "hooks": {
            "guard": "none in source: instrumentation is injected with `go build -overlay` (export shims, sync shim, map-order rewrite) generated from /repo's working tree at check time; a normal build never sees it",
            "enable": "./check <ID> builds cmd/<id> with -overlay build/overlay-<id>.json when cmd/<id>/overlay.sh exists",
            "baseline_off_cmd": "cd /repo && GOFLAGS=-mod=mod GOPROXY=off GOSUMDB=off go test -json -vet=off -count=1 -timeout 25m ./...",
            "source_commits": [],
            "add_only": True,
        },
        "engines": [{
            "name": "mc", "path": "/verif/mc",
            "serves_properties": [c["property_id"] for c in checks],
            "kind_free_text": "hand-written stateless model checker for Go: depth-first enumeration of a driver's choice tree by prefix replay on the real library code, deviation-bounded (iterative context bounding applied to environment answers), optional explicit-state pruning on canonical state keys, 16 worker processes with address-space and stack caps, crash/hang attribution, determinism self-check by re-execution",
        }],
        "checks": checks,
        "not_applicable": na,
        "notes": "All checks rebuild from /repo's working tree (./check). Known findings: /verif/known_findings.json. Seeded property-breaking changes and which checks catch them: /verif/seeded, DESIGN.md.",
    }
    out = os.path.join(ROOT, "MANIFEST.json")
    json.dump(m, open(out, "w"), indent=1)
    open(out, "a").write("\n")
    try:
        import jsonschema
        jsonschema.validate(m, json.load(open("/root/.vp/MANIFEST.schema.json")))
        print("MANIFEST.json valid;", len(checks), "checks,", len(na), "not claimed")
    except ImportError:
        print("MANIFEST.json written (jsonschema not available to validate)")

if __name__ == "__main__":
    main()
