#!/usr/bin/env python3
"""tools/seedrun.py <seed-dir> <PROP> [tier] [--demo dest/relative/path_test.go "go test cmd"]

Applies <seed-dir>/patch.diff to a scratch worktree of /repo (HEAD), checks that the
library builds and its own tests pass, optionally runs the demonstration with and
without the patch, then runs the property's check against the patched files (through
a build overlay, /repo itself is left untouched) and reports whether it raised VIOLATION."""
import sys, os, subprocess, json, shutil, tempfile, time
env = dict(os.environ, GOFLAGS="-mod=mod", GOPROXY="off", GOSUMDB="off", GOTOOLCHAIN="local")
def sh(cmd, cwd=None, timeout=3600):
    r = subprocess.run(cmd, shell=True, cwd=cwd, env=env, capture_output=True, text=True, errors="replace", timeout=timeout)
    return r.returncode, r.stdout + r.stderr
def main():
    seed, prop = sys.argv[1], sys.argv[2]
    rest = sys.argv[3:]
    tier = "quick"
    demo = None
    if rest and rest[0] in ("quick", "thorough"):
        tier = rest.pop(0)
    if rest and rest[0] == "--demo":
        demo = (rest[1], rest[2])
    wt = tempfile.mkdtemp(prefix="sv-", dir="/tmp")
    os.rmdir(wt)
    rc, out = sh(f"git -C /repo worktree add --detach {wt} HEAD")
    assert rc == 0, out
    res = {"seed": seed, "property": prop, "tier": tier}
    try:
        if demo:
            shutil.copy(os.path.join(seed, os.path.basename(demo[0]) if os.path.exists(os.path.join(seed, os.path.basename(demo[0]))) else "demo_test.go"), os.path.join(wt, demo[0]))
            rc, out = sh(demo[1], cwd=wt)
            res["demo_without_patch"] = "pass" if rc == 0 else "FAIL"
        rc, out = sh(f"git apply {os.path.abspath(seed)}/patch.diff", cwd=wt)
        if rc != 0:
            res["apply"] = "FAILED: " + out[-300:]
            print(json.dumps(res, indent=1)); return
        if demo:
            rc, out = sh(demo[1], cwd=wt)
            res["demo_with_patch"] = "fail (as wanted)" if rc != 0 else "PASSES (bad)"
            os.remove(os.path.join(wt, demo[0]))
        rc, out = sh("go build ./... && go test -count=1 ./...", cwd=wt)
        res["build_and_tests_with_patch"] = "pass" if rc == 0 else "FAIL: " + out[-400:]
        rc, out = sh("git diff --name-only", cwd=wt)
        files = [f for f in out.split() if f.endswith(".go") and not f.endswith("_test.go")]
        res["files"] = files
        args = " ".join(f"{f}={wt}/{f}" for f in files)
        t0 = time.time()
        rc, out = sh(f"/verif/tools/mutrun.sh {prop} {tier} {args}", cwd="/verif")
        res["check_wall_s"] = round(time.time() - t0, 1)
        res["check_exit"] = rc
        viol = [l for l in out.splitlines() if l.startswith("--- violation") or l.startswith("VIOLATION")]
        res["detected"] = any(l.startswith("VIOLATION") for l in out.splitlines())
        res["violation_keys"] = [l[len("--- violation key="):][:160] for l in out.splitlines() if l.startswith("--- violation")][:6]
        res["tail"] = out.splitlines()[-2:]
    finally:
        sh(f"git -C /repo worktree remove --force {wt}")
    print(json.dumps(res, indent=1))
if __name__ == "__main__":
    main()
