#!/bin/bash
# tools/run_all.sh [quick|thorough] [ID ...]: runs the checks one after the other and prints one line each
cd "$(dirname "$0")/.."
tier="${1:-quick}"; shift
ids=("$@"); [ ${#ids[@]} -eq 0 ] && ids=(C01 C02 C03 C04 C05 C06 C07 C08 C09 C10 C11 C12 C13 C14 C15 C16 C17 C18 C19 C20)
for id in "${ids[@]}"; do
  t0=$(date +%s)
  out=$(./check "$id" "$tier" 2>&1); rc=$?
  t1=$(date +%s)
  echo "== $id $tier rc=$rc wall=$((t1-t0))s :: $(echo "$out" | grep -a "^$id $tier:" | tail -1)"
  echo "$out" | grep -a "^VIOLATION\|^KNOWN-FINDING\|HARNESS-ERROR\|^--- violation\|exhaustive=false" | cut -c1-300
done
