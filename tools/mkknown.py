#!/usr/bin/env python3
"""Regenerates known_findings.json from the table below (fixed entries) plus the
open findings in OPEN. Fixed entries suppress nothing; they document repairs."""
import json, os
ROOT = os.path.dirname(os.path.dirname(os.path.abspath(__file__)))
FIXED = [
 ("C14","60d0b09","C14:truncated-binary-clean-eof:last-segment-truncated","PFB binary segment shorter than its declared length ended with clean io.EOF when the caller read with 1- or 2-byte buffers (stream 80 02 01 00 00 00 <EOF>, Read(1))"),
 ("C02","bac16c8","C02:eq:state:value:(int,int)","`9007199254740993 9007199254740992 eq` gave true (integers compared as float64); same for ne"),
 ("C02","ea7dfbf","C02:get:state:value-integer:(str,int)","`(abc) 0 get` pushed a raw Go byte instead of an Integer"),
 ("C02","74f44ed","C02:sub:state:value-real:(int,int)","`0 -9223372036854775808 sub` wrapped around instead of being promoted to a real"),
 ("C02","d3d506a","C02:mul:state:value-real:(int,int)","`-1 -9223372036854775808 mul` wrapped around instead of being promoted to a real"),
 ("C02","187d2ec","C02:getinterval:unexpected-error:rangecheck:(str,int,int)","`(abc) 3 0 getinterval` gave rangecheck instead of the empty string (index = length)"),
 ("C02","afe2152","C02:put:missing-error:rangecheck:(str,int,int)","`(abc) 0 1000 put` stored 232 instead of failing with rangecheck"),
 ("C02","04caf2e","C02:index:wrong-error:typecheck-got-stackunderflow","`(a) index` / `-5 index` on a one-element stack reported stackunderflow instead of typecheck / rangecheck"),
 ("C02","d9984fe","C02:matrix:state:value-real","`matrix` produced integers [1 0 0 1 0 0] instead of reals"),
 ("C02","a2e6ba3","C02:if:missing-error:typecheck","`true 5 if`, `false 1 2 ifelse`, `7 loop`, `0 1 2 5 for` executed a non-procedure operand instead of failing with typecheck"),
 ("C01","d2218c7","panic: runtime error: slice bounds out of range @seehuhn.de/go/postscript.bCopy","`1 2 9223372036854775807 copy` panicked (count check overflowed)"),
 ("C01","f3e7eb9","panic: runtime error: slice bounds out of range @seehuhn.de/go/postscript.bPutinterval","`3 string 9223372036854775807 (ab) putinterval` panicked (range check overflowed)"),
 ("C01","35984e1","C01:crash:font:lenIV=-1099511627776","a negative /lenIV made type1.Read panic (makeslice) or die with a fatal out-of-memory error (lenIV -2^40 asks for a terabyte)"),
 ("C01","4b5e453","panic: runtime error: slice bounds out of range @seehuhn.de/go/postscript/type1.","charstring `0 0 callothersubr` panicked in the charstring decoder (slice [:-1])"),
 ("C01","25ffaad","C01:crash:ps-operator:bind","`bind` on two 12-slot procedures that contain each other in every slot walked (n!)^2 paths: a hang inside one operation that no budget stops"),
 ("C01","0bc1881","panic: runtime error: index out of range @seehuhn.de/go/postscript.defaultErrorHandlerFn","`errordict /typecheck get exec` ran the default error handler with no pending error: index out of range [-1] (found by an independent seeding agent; C01 now enumerates error-handler objects as operands)"),
 ("C01","17d4547","C01:crash:charstring-call-fan-out","a font of about one kilobyte whose subroutines call each other nine levels deep, each level calling the next one 12 times, made type1.Read build hundreds of millions of path commands until the process died with `fatal error: out of memory` (8 calls per level: 13 s and 16.7 million commands); charstring operators are now counted per font (hint from a seeding agent's closing remark; C01 family charstring-call-fan-out)"),
 ("C03","fd1b9e3","C03:shapes:state:stack-depth:{exec,lit}","`{ {1 2} } exec` executed the inner procedure (procedure literal in tail position run instead of pushed)"),
 ("C03","9f20894","C03:shapes:unexpected-error:invalidexit:{repeat,exit}","`3 {exit} repeat` reported invalidexit; `stop` inside repeat only ended the loop (errStop/errExit swapped)"),
 ("C03","504480d","C03:dictstack:state:value:{dict}","`{/add} bind` replaced the literal name /add by the operator"),
 ("C11","cb678c3","C11:budget:counted-past-N+1","budget tripping inside a procedure run by an operator executed the interrupt handler: NumOps reached N+2.., and on a full operand stack the budget error was replaced by stackoverflow (`1 2 add {3} exec` with N=6)"),
 ("C11","bef94a8","C11:crash:growth:/r {r 1} def r","`/r {r 1} def r` without budget recursed in Go until the goroutine stack was exhausted (process death); name calls now count towards execstackoverflow"),
 ("C17","6fa95a8","C17:order-dependent:Metrics.Write","afm.Metrics.Write ranged over the ligature map directly: two ligatures on one glyph were written in either order"),
 ("C06","2e892d5","C06:flex-after-line:spurious-closepath","a flex directly after a line segment was decoded with a spurious closepath inside the contour"),
 ("C06","59475fd","C06:seac:accent-closepath-dropped","the accent's closepath commands were dropped when a seac composite was expanded"),
 ("C10","b469c1b","C10:header-injection:version-line-end","a /version string containing a line break was copied into the %!FontType1 header comment; the written font could not be re-read (also reported by C08/C09 as version-line-break-in-header-comment)"),
 ("C09","15a5927","C09:encoding:subset-of-StandardEncoding-written-as-StandardEncoding","an encoding leaving the standard code of an existing glyph unassigned was written as StandardEncoding and came back with that code assigned (also C08, C10)"),
 ("C09","f6a5c04","C09:creation-date:unnamed-zone-lost","a creation time in a zone without a name was written as `... +0530 +0530`, which no accepted layout parsed: it came back as the zero time"),
 ("C15","b2bba1f","C15:write-read:Version:lost","afm.Metrics.Write emitted neither Version nor Notice (keys Version:lost and Notice:lost)"),
 ("C15","a24b358","C15:write-read:glyph-bbox:huge-value-corrupted","AFM bounding box coordinates beyond the int range (`B 1e30 ...`) were written as -9223372036854775808"),
 ("C19","b8b49d5","C19:afm.GlyphList:notdef-missing","afm.Metrics.GlyphList omitted .notdef when the glyph map had none, so it neither started with .notdef nor had NumGlyphs entries"),
 ("C04","8499a02","C04:number-syntax:underscore-spelling-read-as-number","names such as 1_0 and 0x1p4 were scanned as the numbers 10 and 16 (keys underscore-spelling-read-as-number, hex-float-spelling-read-as-number)"),
 ("C04","d1332c2","C04:string:literal:line-feeds-after-CR-LF-dropped","in a literal string every LF following a CR was dropped: (a\\r\\n\\nb) read as a\\nb"),
 ("C05","bf914e0","C05:dictstack-restore:error","an encrypted part that closes dictionaries opened before `eexec` and then opens a new one (`end 1 dict begin`) got the wrong dictionary stack back after the section: the re-slice to the former depth resurrected the overwritten slot (`2 dict begin /marker0 70 def currentfile eexec ... cleartomark marker0` → undefined; found after a round-2 seed made C05 enumerate what the encrypted part does to the dictionary stack)"),
 ("C17","26f593c","C17:order-dependent:Metrics.Write","glyph boxes whose edges are +0 in one glyph and -0 in another (an AFM file may say `B -0 0 400 700`): the union was accumulated in map order, so Metrics.FontBBoxPDF and the `FontBBox` line of Metrics.Write came out as `-0 0 …` or `0 -0 …` from one call to the next; Font.FontBBox / FontBBoxPDF likewise (keys C17:order-dependent:Metrics.Write, C17:order-dependent:afm write+read, C17:order-dependent:Font boxes and Font.Write; the hint came from a seeding agent's side remark)"),
 ("C05","dc589e1","C05:dictstack-restore:limit","`currentfile eexec` entered with 20 dictionaries on the dictionary stack pushed systemdict as the 21st entry and ran the section, where `systemdict begin` followed by the plaintext fails with dictstackoverflow (C05 family dictstack-restore with 15..18 extra dictionaries open)"),
 ("C02","bce92e3","C02:type:state:stack-depth:(int)","`type` left its operand on the stack below the type name (`1 type` gave `1 /integertype`); PLRM: any type -> name.  The reference machine had copied the behaviour; pointed out by a round-6 seeding agent"),
 ("C17","d3a67ad","C17:order-dependent:forall over a dictionary, left after the first entry","`forall` over a dictionary ranged over the Go map directly: `<< /a 1 /b 2 /c 3 /d 4 >> { pop exit } forall` left a different key from run to run, and a CMap or font file that picks its name or numbers its entries this way read differently each time (keys C17:order-dependent:forall…, C17:order-dependent:ReadCMap; entries are now visited in sorted key order; remark of a round-6 seeding agent)"),
 ("C03","90eb9e3","C03:loop-operands:state:stack-depth:{for}","`9223372036854775806 1 9223372036854775807 {} for` did not stop after two rounds: the control variable wrapped around to the smallest integer and the loop went on until the budget or the operand stack ended it (C03 family loop-operands now has 972 triples at both ends of the integer range)"),
 ("C11","0b3cfb5","C11:budget-across-calls:counting-continues-after-the-budget-error","after the budget error every further Execute call on the interpreter failed as it should but counted one more operation first: MaxOps=3 gave NumOps 4, 5, 6, … on consecutive calls (the property: never counting past N+1)"),
 ("C01","b9f34bb","C01:crash:deep-nesting:{{{…}}} bind","eight million `{`, as many `}` and `bind` (16 MB, any budget, also through ReadCMap and type1.Read) ended the process with `fatal error: stack overflow`: braces are handled before any limit, and bind recurses once per level; more than 500 unclosed braces now give limitcheck (C01 family deep-nesting)"),
 ("C12","6eec1b7","C12:delivery:ps:stray-delimiter-0","`1 > 2` is a syntaxerror when the reader reports the end of the input separately, but ended silently with `1` on the stack when the reader returned the last bytes together with io.EOF (the scanner returned the reader's pending error in place of the syntax error)"),
 ("C04","f2d1404","C04:token:procedure-wrong-length","a form feed did not end a comment (PLRM 3.2.2: newline or form feed): `1 %c<FF>2<LF>3` read as 1 3.  Earlier listed under `deliberately not generated`; now generated (two comment+FF separators)"),
 ("C04","3bf76e0","C04:dsc:wrong-value","second half of f2d1404: a form feed ended an ordinary comment but not a structured one: `%%Last: v<FF>7 pop` took `v<FF>7 pop` for the value (remark of a round-7 seeding agent on the tree that had only the first half)"),
 ("C07","15a96e6","C07:fault-accepted:low-above-high:codespacerange","`1 begincodespacerange <FF> <00> endcodespacerange` was stored although `a reversed range … is rejected`; earlier the reference treated only the three range-mapping kinds as faults"),
 ("C09","9356f30","C09:creation-date","creation times in zones the header comment cannot express did not read back: a zone offset with seconds (time.FixedZone(\"\", 3632), local mean time) came back 32 s off, a zone name that is not an abbreviation (\"myzone\", \"X\", \"Europe/Berlin\") came back as the zero time, and a name with a line break broke the file (keys C09:creation-date, C09:read-error, C08:decode:unsupported:operator)"),
 ("C15","94f5319","C15:sizes:read-error","afm.Read failed with `bufio.Scanner: token too long` on the library's own output as soon as one line passed 64 KiB (a Notice of 70,000 bytes, a glyph with 9000 ligatures)"),
 ("C20","fe145dd","C20:drift:far-from-origin","the writer added the sum of a curve's three deltas to its tracked position, the decoder adds them one after the other: up to one unit in the last place apart per curve.  `MoveTo(2147483647, 0)` followed by 10,000 curves with deltas of 1/3 decoded 0.0062 away from the requested outline (bound 1/214 = 0.0047); found by a round-7 seeding agent, C20 family drift-far-from-origin"),
 ("C01","40ef90a","C01:crash:seac-chains","a seac composite whose base and accent are the composite before it doubled the outline at every step (composites are resolved in glyph-name order with no bound): a font of under 8 KiB with a chain of 255 such glyphs made type1.Read die with a fatal out-of-memory error, 22 glyphs already built 8 million path commands; the commands copied into a composite now count towards the per-font charstring operator limit.  Remark of a round-10 seeding agent, C01 family seac-chains"),
 ("C04","4b9b02f","C04:dsc:wrong-value","after a structured comment ended by a form feed (3bf76e0) a `%%+` on the same line was taken for a continuation line: `%%A: 1<FF>%%+ x` gave the value `1 x` instead of `1` (the `%%+` there is an ordinary comment in the middle of a line); remark of a round-10 seeding agent, C04 family dsc (second comment ended by a form feed and followed by `%%+`)"),
 ("C16","c23956e","C16:glyphlist:multi-code-entry-maps-to-U+0000","the 81 glyph list entries denoting several characters mapped to U+0000 (ToUnicode(\"dalethatafpatah\") = [0000] instead of [05D3 05B2])"),
]
OPEN = [
 # (property, key, what)
 ('C08', 'C08:glyph-name-shadows-font-program-operator', 'a glyph named RD, ND, end, def, string, currentfile, exch, readstring or pop is defined in the CharStrings dictionary while that dictionary is on the dictionary stack and shadows the operator of that name for the rest of the font program; the file no longer decodes (inherent in the `dict dup begin /name n RD ... ND ... end` form of the Adobe format, which the writer follows; same as C09)'),
 ('C09', 'C09:glyph-name-shadows-font-program-operator', 'a glyph named RD, ND, end, def, string, exch, readstring or pop (followed by at least one more glyph in name order) is defined in the CharStrings dictionary while that dictionary is on the dictionary stack, and shadows the operator of that name for the rest of the font program; type1.Read of the written file fails (inherent in the `dict dup begin /name n RD ... ND ... end` form of the Adobe format, which the writer follows)'),
 ('C10', 'C10:glyph-named-RD-ND-NP-shadows-procedure', "a font that uses the -| |- | procedure names and contains a glyph named ND (or RD, NP) together with a glyph sorting after it is accepted; Font.Write emits `/ND <n> RD <data> ND` inside `CharStrings ... dict dup begin`, which redefines ND as a string in the CharStrings dictionary, so the next glyph's ND pushes a string instead of executing `def` and re-reading fails (typecheck in put)"),
]
def main():
    out = []
    for p, c, k, w in FIXED:
        out.append({"property": p, "key": k, "status": "fixed", "commit": c, "what": w,
                    "line": f"fixed: property={p} {c} {w}"})
    for p, k, w in OPEN:
        out.append({"property": p, "key": k, "status": "open", "what": w})
    json.dump({"findings": out}, open(os.path.join(ROOT, "known_findings.json"), "w"), indent=1)
    print(len(out), "entries")
if __name__ == "__main__":
    main()
