// fieldaudit: vacuity audit for the generated font and metrics corpora.  For
// every struct field reachable from type1.Font (and afm.Metrics) it counts the
// distinct values seen over all generated inputs; a field with one distinct
// value is a field no check varies.
package main

import (
	"fmt"
	"os"
	"reflect"
	"sort"

	"verif/model/t1fonts"
)

var seen = map[string]map[string]bool{}

func note(path string, v string) {
	m := seen[path]
	if m == nil {
		m = map[string]bool{}
		seen[path] = m
	}
	if len(m) < 1000 {
		m[v] = true
	}
}

func walk(path string, v reflect.Value) {
	switch v.Kind() {
	case reflect.Ptr:
		if v.IsNil() {
			note(path, "nil")
			return
		}
		walk(path, v.Elem())
	case reflect.Struct:
		if v.Type().PkgPath() == "time" {
			note(path, fmt.Sprint(v.Interface()))
			return
		}
		for i := 0; i < v.NumField(); i++ {
			if v.Type().Field(i).IsExported() {
				walk(path+"."+v.Type().Field(i).Name, v.Field(i))
			}
		}
	case reflect.Map:
		note(path+"#len", fmt.Sprint(v.Len()))
		it := v.MapRange()
		for it.Next() {
			if it.Key().Kind() == reflect.String {
				note(path+"#key", it.Key().String())
			}
			walk(path+"[]", it.Value())
		}
	case reflect.Slice:
		note(path+"#len", fmt.Sprint(v.Len()))
		if v.Len() > 0 && v.Index(0).Kind() != reflect.Struct {
			note(path, fmt.Sprint(v.Interface()))
			return
		}
		for i := 0; i < v.Len(); i++ {
			walk(path+"[]", v.Index(i))
		}
	case reflect.Array:
		note(path, fmt.Sprint(v.Interface()))
	default:
		note(path, fmt.Sprint(v.Interface()))
	}
}

func main() {
	tier := "quick"
	if len(os.Args) > 1 {
		tier = os.Args[1]
	}
	total := 0
	for _, fam := range t1fonts.Families(tier, t1fonts.DomainC08) {
		step := 1
		if fam.N > 20000 {
			step = fam.N / 20000
		}
		for i := 0; i < fam.N; i += step {
			walk("Font", reflect.ValueOf(fam.Build(i)))
			total++
		}
	}
	fmt.Println("fonts walked:", total)
	var keys []string
	for k := range seen {
		keys = append(keys, k)
	}
	sort.Strings(keys)
	for _, k := range keys {
		n := len(seen[k])
		flag := ""
		if n == 1 {
			flag = "   <-- never varied"
			for v := range seen[k] {
				flag += " (" + v + ")"
			}
		}
		fmt.Printf("%5d %s%s\n", n, k, flag)
	}
}
