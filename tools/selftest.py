#!/usr/bin/env python3
"""Applies hand-written property-breaking changes (one at a time, through a build
overlay: /repo is not touched) and records whether the property's check reports
them.  Usage: tools/selftest.py [PROP ...]   Results: SELFTEST-results.json"""
import sys, os, subprocess, json, tempfile, time, shutil
MUT = [
 # (property, name, file, old, new)
 ("C01","drop the negative-index guard in index","builtin.go","if index < 0 || index >= Integer(len(intp.Stack)) {","if index >= Integer(len(intp.Stack)) {"),
 ("C01","charstring stack limit removed","type1/t1decode.go","if len(stack) > maxStack {","if false {"),
 ("C01","subroutine call depth limit removed","type1/t1decode.go","if len(cmdStack) > 10 {","if false {"),
 ("C02","copy on arrays returns the source prefix","builtin.go","\t\tn := copy(b, a)\n\t\tres = b[:n]\n\tcase Dict:","\t\tn := copy(b, a)\n\t\tres = a[:n]\n\tcase Dict:"),
 ("C02","getinterval returns a copy","builtin.go","\tcase Array:\n\t\tres = obj[index : index+count]","\tcase Array:\n\t\tres = append(Array{}, obj[index:index+count]...)"),
 ("C02","add overflow test loses the negative case","builtin.go","if (ai < 0 && bi < 0 && ci >= 0) || (ai > 0 && bi > 0 && ci <= 0) {\n\t\t\tintp.Stack = append(intp.Stack, Real(ai)+Real(bi))","if ai > 0 && bi > 0 && ci <= 0 {\n\t\t\tintp.Stack = append(intp.Stack, Real(ai)+Real(bi))"),
 ("C02","where searches bottom-up","builtin.go","\tintp.Stack = intp.Stack[:len(intp.Stack)-1]\n\tfor j := len(intp.DictStack) - 1; j >= 0; j-- {\n\t\td := intp.DictStack[j]\n\t\tif _, ok := d[key]; ok {","\tintp.Stack = intp.Stack[:len(intp.Stack)-1]\n\tfor j := 0; j < len(intp.DictStack); j++ {\n\t\td := intp.DictStack[j]\n\t\tif _, ok := d[key]; ok {"),
 ("C02","StandardEncoding entry changed","psenc/standard.go","\"quoteright\"","\"quotesingle\""),
 ("C03","for terminates one step early","builtin.go","if increment > 0 && val > limit || increment < 0 && val < limit {","if increment > 0 && val >= limit || increment < 0 && val < limit {"),
 ("C03","ifelse runs the wrong branch for false","builtin.go","\tif cond {\n\t\treturn intp.executeOne(proc1, true)\n\t} else {\n\t\treturn intp.executeOne(proc2, true)\n\t}","\tif cond {\n\t\treturn intp.executeOne(proc1, true)\n\t}\n\t_ = proc2\n\treturn nil"),
 ("C03","name lookup bottom-up","interpreter.go","\tfor j := len(intp.DictStack) - 1; j >= 0; j-- {\n\t\td := intp.DictStack[j]\n\t\tif val, ok := d[name]; ok {","\tfor j := 0; j < len(intp.DictStack); j++ {\n\t\td := intp.DictStack[j]\n\t\tif val, ok := d[name]; ok {"),
 ("C03","exit swallowed by forall over strings only after the loop","builtin.go","\t\tfor _, c := range obj {\n\t\t\tintp.Stack = append(intp.Stack, Integer(c))\n\t\t\terr := intp.executeOne(proc, true)\n\t\t\tif err == errExit {\n\t\t\t\tbreak","\t\tfor _, c := range obj {\n\t\t\tintp.Stack = append(intp.Stack, Integer(c))\n\t\t\terr := intp.executeOne(proc, true)\n\t\t\tif err == errExit {\n\t\t\t\tcontinue"),
 ("C11","budget comparison off by one","interpreter.go","intp.NumOps > intp.MaxOps {","intp.NumOps >= intp.MaxOps {"),
 ("C11","dict stack limit removed from begin","builtin.go","if len(intp.DictStack) >= maxDictStackDepth {","if false {"),
 ("C11","CheckStart stays armed after passing","interpreter.go","\t\tintp.CheckStart = false\n",""),
 ("C11","string size limit raised","builtin.go","} else if size > maxStringSize {","} else if size > maxStringSize*100000 {"),
 ("C12","EOF delivered together with data loses the data","scanner.go","\tif n > 0 {\n\t\terr = nil\n\t}\n\treturn err","\treturn err"),
 ("C12","peekReader replays its byte twice","type1/peekreader.go","\tr.buf = r.buf[k:]\n","\tif len(b) > 1 {\n\t\tr.buf = r.buf[k:]\n\t}\n"),
 ("C12","pfb text segment: short read treated as end of segment","pfb/reader.go","\t\t\tb = b[k:]\n\t\t\tif r.len == 0 {\n\t\t\t\tr.state = 0\n\t\t\t}\n\t\tcase 2:","\t\t\tb = b[k:]\n\t\t\tif r.len == 0 || k == 1 {\n\t\t\t\tr.state = 0\n\t\t\t}\n\t\tcase 2:"),
 ("C13","error of the hex writer's Close dropped","type1/write.go","\t\terr = wh.Close()\n\t\tif err != nil {\n\t\t\treturn err\n\t\t}\n","\t\twh.Close()\n"),
 ("C13","afm writer ignores the error of one line","afm/write.go","\tif err := write(\"EndCharMetrics\"); err != nil {\n\t\treturn err\n\t}","\twrite(\"EndCharMetrics\")"),
 ("C13","scanner forgets the sticky read error","scanner.go","\tif s.err != nil {\n\t\treturn s.err\n\t}\n\ts.used","\tif s.err != nil {\n\t\treturn io.EOF\n\t}\n\ts.used"),
 ("C14","leftover nibble taken from the high half","pfb/reader.go","r.tail = hexEncode(b[k-1] & 0x0f)","r.tail = hexEncode(b[k-1] >> 4)"),
 ("C14","type 0 accepted as a segment type","pfb/reader.go","buf[1] == 0 || buf[1] > 3","buf[1] > 3"),
 ("C16","uni form accepts lower-case hex","type1/names/names.go","\t\t\t\tcase c >= 'A' && c <= 'F':\n\t\t\t\t\tval = val*16 + c - 'A' + 10\n\t\t\t\tdefault:\n\t\t\t\t\tgood = false\n\t\t\t\t\tbreak hexLoop","\t\t\t\tcase c >= 'A' && c <= 'F':\n\t\t\t\t\tval = val*16 + c - 'A' + 10\n\t\t\t\tcase c >= 'a' && c <= 'f':\n\t\t\t\t\tval = val*16 + c - 'a' + 10\n\t\t\t\tdefault:\n\t\t\t\t\tgood = false\n\t\t\t\t\tbreak hexLoop"),
 ("C17","GlyphList of fonts loses the name tie-break","type1/font.go","\t\treturn glyphNames[i] < glyphNames[j]","\t\treturn false"),
 ("C17","ReadCMap no longer sorts the names","cmap.go","\tslices.Sort(names)\n","\t_ = slices.Sort[[]Name]\n"),
 ("C18","interpreters share the CIDInit procedure set","interpreter.go","\"CIDInit\": maps.Clone(cidInit),","\"CIDInit\": func() Dict { _ = maps.Clone[Dict]; return cidInit }(),"),
 ("C18","lookup no longer takes the lock","type1/names/names.go","func (gm *glyphMap) lookup(file, name string) (rune, bool) {\n\tgm.Lock()\n\tdefer gm.Unlock()\n","func (gm *glyphMap) lookup(file, name string) (rune, bool) {\n"),
 ("C18","nil check moved outside the lock","type1/names/names.go","\tgm.Lock()\n\tdefer gm.Unlock()\n\n\tif gm.runeToName != nil {\n\t\treturn gm.runeToName\n\t}\n","\tif gm.runeToName != nil {\n\t\treturn gm.runeToName\n\t}\n\tgm.Lock()\n\tdefer gm.Unlock()\n"),
 ("C18","StandardEncoding array hoisted to package scope","builtin.go","\tstandardEncoding := make(Array, 256)\n\tfor i, name := range psenc.StandardEncoding {\n\t\tstandardEncoding[i] = Name(name)\n\t}\n","\tif sharedStdEnc == nil {\n\t\tsharedStdEnc = make(Array, 256)\n\t\tfor i, name := range psenc.StandardEncoding {\n\t\t\tsharedStdEnc[i] = Name(name)\n\t\t}\n\t}\n\tstandardEncoding := sharedStdEnc\n"),
]
EXTRA = {"C18:StandardEncoding array hoisted to package scope": ("builtin.go", "\nvar sharedStdEnc Array\n")}
env = dict(os.environ, GOFLAGS="-mod=mod", GOPROXY="off", GOSUMDB="off", GOTOOLCHAIN="local")
def main():
    want = set(sys.argv[1:])
    out_path = "/verif/SELFTEST-results.json"
    results = json.load(open(out_path)) if os.path.exists(out_path) else {}
    for prop, name, file, old, new in MUT:
        if want and prop not in want: continue
        src = open("/repo/" + file).read()
        if src.count(old) < 1:
            results[f"{prop}:{name}"] = {"status": "PATTERN-NOT-FOUND"}; print(prop, name, "PATTERN NOT FOUND"); continue
        mutated = src.replace(old, new, 1)
        ex = EXTRA.get(f"{prop}:{name}")
        if ex: mutated += ex[1]
        d = tempfile.mkdtemp(prefix="st-", dir="/tmp")
        try:
            mf = os.path.join(d, os.path.basename(file))
            open(mf, "w").write(mutated)
            # does the mutant compile and pass the repository's own tests?
            ov = os.path.join(d, "ov.json")
            json.dump({"Replace": {"/repo/" + file: mf}}, open(ov, "w"))
            r = subprocess.run(f"cd /repo && go build -overlay {ov} ./... && go test -overlay {ov} -vet=off -count=1 ./...", shell=True, env=env, capture_output=True, text=True, errors="replace")
            tests = "pass" if r.returncode == 0 else "FAIL"
            t0 = time.time()
            r2 = subprocess.run(f"/verif/tools/mutrun.sh {prop} quick {file}={mf}", shell=True, cwd="/verif", env=env, capture_output=True, text=True, errors="replace")
            wall = round(time.time() - t0, 1)
            lines = (r2.stdout + r2.stderr).splitlines()
            detected = any(l.startswith("VIOLATION") for l in lines)
            keys = [l[len("--- violation key="):][:140] for l in lines if l.startswith("--- violation")][:3]
            results[f"{prop}:{name}"] = {"file": file, "repo_tests": tests, "detected": detected, "wall_s": wall, "keys": keys, "exit": r2.returncode}
            print(prop, "|", name, "| repo tests:", tests, "| detected:", detected, "|", wall, "s |", keys[:1])
        finally:
            shutil.rmtree(d, ignore_errors=True)
        json.dump(results, open(out_path, "w"), indent=1)
if __name__ == "__main__":
    main()
