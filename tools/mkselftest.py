#!/usr/bin/env python3
"""Writes /verif/SELFTEST.md from SELFTEST-results.json (hand-written mutations run by
tools/selftest.py) and /verif/seeded/*/meta.json (independently seeded changes verified
by tools/seedstore.py)."""
import json, glob, os
R = "/verif"
out = ["# Self-test: showing that each check can fail", "",
"Two sources of property-breaking changes are used. Every change is applied through a",
"`go build -overlay` (tools/mutrun.sh), so /repo itself is never modified; the check is",
"rebuilt from the changed sources, including regenerated instrumentation for C17/C18.", "",
"## 1. Hand-written mutations (tools/selftest.py)", "",
"`repo tests` = the repository's own test suite run against the mutant (a mutant that",
"fails them would be caught without this machinery; it is kept in the table for",
"completeness). `detected` = the property's quick check printed a VIOLATION line.", "",
"| property | change | file | repo tests | detected | wall s | first key |", "|---|---|---|---|---|---|---|"]
res = json.load(open(R + "/SELFTEST-results.json")) if os.path.exists(R + "/SELFTEST-results.json") else {}
nd = 0
for k, v in res.items():
    prop, name = k.split(":", 1)
    if v.get("status"):
        out.append(f"| {prop} | {name} | | {v['status']} | | | |"); continue
    key = (v.get("keys") or [""])[0].replace("|", "/")
    out.append(f"| {prop} | {name} | {v['file']} | {v['repo_tests']} | {'yes' if v['detected'] else 'no'} | {v['wall_s']} | `{key[:80]}` |")
    nd += v["detected"]
out += ["", f"{nd} of {len(res)} detected. Not detected, and why:", "",
"* C01 'charstring stack limit removed': without the limit the decoder's operand stack",
"  simply grows with the charstring (bounded by its length); nothing crashes or hangs, so",
"  C01 is not violated — an equivalent mutant for this property.",
"* C12 'peekReader replays its byte twice' (`if len(b) > 1 { r.buf = r.buf[k:] }`): the only",
"  caller of the peek reader inside the library is the scanner, which always reads with its",
"  512-byte buffer, so the changed branch (caller buffer of one byte) is unreachable through",
"  type1.Read — behaviour is unchanged. (The seeded change C12-B breaks the same function",
"  reachably and is caught.)", ""]
out += ["The builders' own mutation tables (another ~150 mutants, all but a few equivalent ones",
"detected) are next to the drivers: cmd/c04 … cmd/c10, cmd/c15, cmd/c16, cmd/c19, cmd/c20",
"`SELFTEST.md`.", "",
"## 2. Independently seeded changes (/verif/seeded)", "",
"Changes written by fresh sub-agents that were given only the text of one property and a",
"scratch worktree of the repository (nothing from /verif): two per property in each round",
"(round 1: -A/-B; round 2: -C/-D, the agents also got one-line descriptions of the earlier",
"changes and were asked for different mechanisms; round 3: -E/-F, round 4: -G/-H, round 5: -I/-J, round 6: -K/-L, round 7: -M/-N, round 8: -O/-P, round 9: -Q/-R and round 10: -S/-T, likewise; round 11: one per property, -U; round 12: eight properties, -V).",
"Each was re-verified by tools/seedstore.py against /repo's HEAD: the demonstration passes",
"on the clean tree; with the patch the library builds, its own tests pass and the",
"demonstration fails; then the property's quick check was run against the patched files.",
"`first run` tells whether the check caught the change as it stood when the change",
"arrived; where it did not, the check was strengthened (see DESIGN.md section 11) and now",
"catches it.", "",
"| id | files | what was changed | detected | first key | wall s |", "|---|---|---|---|---|---|"]
first_miss = {"C16-A", "C02-B", "C01-B", "C11-A", "C12-B", "C17-A", "C17-B", "C05-B", "C08-A", "C09-A", "C10-A", "C20-A", "C19-A",
              "C01-C", "C01-D", "C02-C", "C03-C", "C03-D", "C04-D", "C05-C", "C05-D", "C06-C", "C07-C", "C08-C", "C09-D", "C10-C", "C10-D",
              "C11-C", "C11-D", "C12-C", "C12-D", "C15-C", "C17-C", "C17-D", "C18-C", "C18-D", "C19-C"}
first_miss |= set(json.load(open(R + "/seeded/first_miss_round3.json"))) if os.path.exists(R + "/seeded/first_miss_round3.json") else set()
out[-2] = "| id | files | what was changed | first run | now | first key | wall s |"
out[-1] = "|---|---|---|---|---|---|---|"
for d in sorted(glob.glob(R + "/seeded/C*-*")):
    m = json.load(open(d + "/meta.json"))
    lv = m.get("lead_verification", {})
    summ = str(m.get("summary", "")).replace("\n", " ").replace("|", "/")
    if len(summ) > 220:
        summ = summ[:217] + "..."
    keys = lv.get("violation_keys") or []
    files = m.get("files")
    files = ", ".join(files) if isinstance(files, list) else str(files)
    sid = os.path.basename(d)
    now = 'caught' if lv.get('detected') else 'MISSED'
    if m.get('not_kept'):
        now = 'not kept (outside the property)'
    out.append(f"| {sid} | {files} | {summ} | {'missed' if sid in first_miss else 'caught'} | {now} | `{keys[0][:70] if keys else ''}` | {lv.get('check_wall_s')} |")
open(R + "/SELFTEST.md", "w").write("\n".join(out) + "\n")
print("written")
