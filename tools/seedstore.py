#!/usr/bin/env python3
"""tools/seedstore.py <prop-lower> ...   e.g. c01 c02
For each /tmp/seed-<prop>/seedout/{A,B}: re-verifies the seeded change against /repo's
current HEAD (demo passes on the clean tree; with the patch the library builds, its own
tests pass and the demo fails), runs the property's check against the patched files
(build overlay, /repo untouched) and stores everything under /verif/seeded/<PROP>-<A|B>/."""
import sys, os, subprocess, json, shutil, re, time
env = dict(os.environ, GOFLAGS="-mod=mod", GOPROXY="off", GOSUMDB="off", GOTOOLCHAIN="local")
def sh(cmd, cwd=None, timeout=3000):
    r = subprocess.run(["bash", "-c", cmd], cwd=cwd, env=env, capture_output=True, text=True, errors="replace", timeout=timeout)
    return r.returncode, r.stdout + r.stderr
head = subprocess.run("git -C /repo rev-parse HEAD", shell=True, capture_output=True, text=True).stdout.strip()
args = sys.argv[1:]
round2 = False
rnd = 1
if args and args[0] in ("--round2", "--round3", "--round4", "--round5", "--round6", "--round7", "--round8", "--round9", "--round10", "--round11", "--round12"):
    round2 = True  # rounds 2 and 3 share the meta format (demo_dest + demo_cmd)
    rnd = int(args[0][len("--round"):])
    args = args[1:]
for prop in args:
    wt = {1: f"/tmp/seed-{prop}", 2: f"/tmp/seed2-{prop}", 3: f"/tmp/seed3-{prop}", 4: f"/tmp/seed4-{prop}", 5: f"/tmp/seed5-{prop}", 6: f"/tmp/seed6-{prop}", 7: f"/tmp/seed7-{prop}", 8: f"/tmp/seed8-{prop}", 9: f"/tmp/seed9-{prop}", 10: f"/tmp/seed10-{prop}", 11: f"/tmp/seed11-{prop}", 12: f"/tmp/seed12-{prop}"}[rnd]
    for ab in {1: "AB", 2: "CD", 3: "EF", 4: "GH", 5: "IJ", 6: "KL", 7: "MN", 8: "OP", 9: "QR", 10: "ST", 11: "U", 12: "V"}[rnd]:
        sd = f"{wt}/seedout/{ab}"
        if not os.path.exists(sd + "/patch.diff"):
            print(prop, ab, "no patch"); continue
        meta = json.load(open(sd + "/meta.json"))
        sh(f"git checkout -q -- . ; git clean -fdq -e seedout ; git checkout -q --detach {head}", cwd=wt)
        cmd = meta.get("demo_cmd", "")
        if meta.get("demo_dest"):
            # round-2 format: copy the demonstration to demo_dest, then run demo_cmd
            dest = meta["demo_dest"]
            cmd = f"mkdir -p $(dirname {dest}) && cp seedout/{ab}/demo_test.go {dest} && " + cmd
        cmd = re.split(r"\s{2,}[(#]", cmd)[0].strip()
        cmd = re.sub(r"\s*;\s*rm\s+\S+\s*$", "", cmd)
        cmd = re.sub(r"git apply \S+\s*&&\s*", "", cmd)
        res = {"repo_head": head[:7]}
        rc, out = sh(cmd, cwd=wt)
        res["demo_on_clean_tree"] = "pass" if rc == 0 else "FAIL"
        sh("git clean -fdq -e seedout", cwd=wt)
        rc, out = sh(f"git apply {sd}/patch.diff", cwd=wt)
        if rc != 0:
            res["apply"] = "FAILED " + out[-200:]
            print(prop, ab, res); continue
        rc, out = sh("go build ./... && go test -count=1 $(go list ./... | grep -v seedout)", cwd=wt)
        res["library_tests_with_patch"] = "pass" if rc == 0 else "FAIL " + out[-300:]
        rc, out = sh(cmd, cwd=wt)
        res["demo_with_patch"] = "fails" if rc != 0 else "PASSES"
        sh("git checkout -q -- . ; git clean -fdq -e seedout", cwd=wt)
        t0 = time.time()
        # a seed written against one property may only be observable through another
        # property's check (C01-E: shared state that aborts the process only under
        # concurrency is the subject of C18; C03-T: a loop refused because of the operation budget is the subject of C11; C10-S: the precision of written coordinates is the subject of C20; C14-T: state shared between two decoders is the subject of C18)
        check_prop = {"c01/E": "C18", "c16/J": "C18", "c10/J": "C20", "c02/O": "C03", "c03/T": "C11", "c10/S": "C20", "c14/T": "C18"}.get(f"{prop}/{ab}", prop.upper())
        rc, out = sh(f"python3 /verif/tools/seedrun.py {sd} {check_prop} quick", cwd="/verif")
        try:
            r = json.loads(out)
        except Exception:
            r = {"detected": None, "raw": out[-300:]}
        res["check"] = f"./check {check_prop} quick (patched files through a build overlay)"
        res["detected"] = r.get("detected")
        res["violation_keys"] = r.get("violation_keys")
        res["check_wall_s"] = r.get("check_wall_s")
        dst = f"/verif/seeded/{prop.upper()}-{ab}"
        os.makedirs(dst, exist_ok=True)
        shutil.copy(sd + "/patch.diff", dst + "/patch.diff")
        for f in os.listdir(sd):
            if f.endswith(".go"):
                shutil.copy(os.path.join(sd, f), os.path.join(dst, f + ".txt"))
        meta["demo_cmd"] = cmd
        meta["breaks_property"] = prop.upper()
        meta["lead_verification"] = res
        json.dump(meta, open(dst + "/meta.json", "w"), indent=1)
        print(prop, ab, "| clean:", res["demo_on_clean_tree"], "| tests:", res["library_tests_with_patch"][:4], "| demo:", res["demo_with_patch"], "| detected:", res["detected"], res.get("violation_keys", [])[:1])
